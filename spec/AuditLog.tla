------------------------------ MODULE AuditLog ------------------------------
(***************************************************************************)
(* C26 - the audit log records every operation and always verifies.        *)
(*                                                                         *)
(* State machine of AuditLogMiddleware (internal/storage/middlewares/audit/*)
(* audit.go) at the grain of its critical sections:                        *)
(*   Open            NewFileSink + InitialState + NewAuditLogMiddleware    *)
(*   WriteGenesis    NewAuditLogMiddleware: genesis when lastHash is zero  *)
(*   Invoke          a client thread enters a storage.Storage method       *)
(*   LogStart        m.log(.., PhaseStart, ..)   (one m.mu section)        *)
(*   Inner           the wrapped storage executes the call                 *)
(*   LogComplete     m.log(.., PhaseComplete, err, ..)                     *)
(*   WriteGrounding  emitGrounding, inside the m.mu section of the LOG     *)
(*                   write that filled the buffer (mode = "grounding"      *)
(*                   excludes every other write in between)                *)
(*   Return          the method returns to the client                      *)
(*   Close           Stop(): sink closed; calls in flight are abandoned    *)
(* Every action takes the written entry e as a parameter: the model-checking*)
(* spec (MCNext) passes the entry built by AuditLogCore, the trace spec    *)
(* (AuditLogTrace) passes the entry decoded from the real log file.  The   *)
(* actions do not touch the history variables (log, returned, vs, rs, ..);  *)
(* MCNext does.                                                            *)
(***************************************************************************)
EXTENDS AuditLogCore

CONSTANTS Threads,         \* client threads
          CallsPerThread,  \* MC bound
          MaxRestarts,     \* MC bound
          MCErrors         \* MC: "both" = every inner call may succeed or fail; "alt" = outcomes alternate

VARIABLES mode,        \* "closed" | "genesis" | "ready" | "grounding"
          w,           \* writer state [last, buf]; survives Close (it is what the file holds)
          pc,          \* per thread: "idle" | "invoked" | "started" | "called" | "completed"
          cur,         \* per thread: the call in progress
          done,        \* number of returned calls
          unrecorded,  \* methods of returned calls that were not recorded by START + COMPLETE
          log,         \* MC history: the written log
          returned,    \* MC history: [id, err] of the calls that returned
          ninv,        \* MC: calls started per thread
          vs,          \* MC history: an online Validator (with verifiers) fed every written entry
          rs,          \* MC history: an online Validator without verifiers (what NewFileSink runs)
          restarts

mwvars == <<mode, w, pc, cur, done, unrecorded>>
vars   == <<mode, w, pc, cur, done, unrecorded, log, returned, ninv, vs, rs, restarts>>

NoCall == [id |-> "", m |-> "", bucket |-> "", key |-> "", uploadId |-> "", partNumber |-> 0,
           sourceBucket |-> "", sourceKey |-> "", credentialId |-> "", authType |-> "",
           traceId |-> "", clientIp |-> "", err |-> "", uid |-> ""]

\* ------------------------------------------------------------------ actions
\* rec = what NewFileSink recovered from the file: [empty |-> BOOLEAN, w |-> writer state]
Open(rec) ==
  /\ mode = "closed"
  /\ IF rec.empty THEN w = W0 ELSE rec.w = w          \* recovery yields exactly what was written
  /\ mode' = IF rec.empty THEN "genesis" ELSE "ready"
  /\ UNCHANGED <<w, pc, cur, done, unrecorded>>

WriteGenesis(e) ==
  /\ mode = "genesis"
  /\ e.type = "GENESIS" /\ e.prev = GenesisPrev
  /\ w' = AfterGenesis(w, e)
  /\ mode' = "ready"
  /\ UNCHANGED <<pc, cur, done, unrecorded>>

Invoke(t, c) ==
  /\ mode # "closed"
  /\ pc[t] = "idle"
  /\ pc' = [pc EXCEPT ![t] = "invoked"]
  /\ cur' = [cur EXCEPT ![t] = c]
  /\ UNCHANGED <<mode, w, done, unrecorded>>

\* one m.log critical section: entry chained to lastHash, buffer extended
WriteLog(e) ==
  /\ mode = "ready"
  /\ e.type = "LOG" /\ e.prev = w.last
  /\ w' = AfterLog(w, e)
  /\ mode' = IF GroundingDue(AfterLog(w, e)) THEN "grounding" ELSE "ready"

LogStart(t, e) ==
  /\ pc[t] = "invoked" /\ Audited(cur[t].m)
  /\ e.d = ExpectedDetails(cur[t], "START", 0)
  /\ WriteLog(e)
  /\ pc' = [pc EXCEPT ![t] = "started"]
  /\ UNCHANGED <<cur, done, unrecorded>>

Inner(t, err, uid) ==
  /\ pc[t] = IF Audited(cur[t].m) THEN "started" ELSE "invoked"
  /\ pc' = [pc EXCEPT ![t] = "called"]
  /\ cur' = [cur EXCEPT ![t].err = err, ![t].uid = uid]
  /\ UNCHANGED <<mode, w, done, unrecorded>>

LogComplete(t, e) ==
  /\ pc[t] = "called" /\ Audited(cur[t].m)
  /\ e.d.durationMs >= 0
  /\ e.d = ExpectedDetails(cur[t], "COMPLETE", e.d.durationMs)
  /\ WriteLog(e)
  /\ pc' = [pc EXCEPT ![t] = "completed"]
  /\ UNCHANGED <<cur, done, unrecorded>>

WriteGrounding(e) ==
  /\ mode = "grounding"
  /\ e.type = "GROUNDING" /\ e.prev = w.last
  /\ w' = AfterGrounding(w, e)
  /\ mode' = "ready"
  /\ UNCHANGED <<pc, cur, done, unrecorded>>

Return(t, err) ==
  /\ pc[t] = IF Audited(cur[t].m) THEN "completed" ELSE "called"
  /\ err = cur[t].err
  /\ pc' = [pc EXCEPT ![t] = "idle"]
  /\ done' = done + 1
  /\ unrecorded' = IF Audited(cur[t].m) THEN unrecorded ELSE unrecorded \cup {cur[t].m}
  /\ cur' = [cur EXCEPT ![t] = NoCall]
  /\ UNCHANGED <<mode, w>>

\* Stop(): the sink is closed between two critical sections; calls in flight never complete
Close ==
  /\ mode = "ready"
  /\ mode' = "closed"
  /\ pc' = [t \in Threads |-> "idle"]
  /\ cur' = [t \in Threads |-> NoCall]
  /\ UNCHANGED <<w, done, unrecorded>>

\* ------------------------------------------------------------ model checking
\* (history variables: log = the written file, returned = calls that returned, ninv = calls started)
\* methods the model-checked clients cycle through (one of them is not wrapped by the code)
MCMethodSeq == <<"PutObject", "PutObjectTagging", "CopyObject">>
MCMethodOf(t, n) == MCMethodSeq[((t + n) % Len(MCMethodSeq)) + 1]

MCCall(t, n) ==
  LET m == MCMethodOf(t, n) IN
  [NoCall EXCEPT !.id = <<t, n>>, !.m = m, !.bucket = "b", !.key = IF m = "ListBuckets" THEN "" ELSE "k",
                 !.sourceBucket = IF m = "CopyObject" THEN "sb" ELSE "",
                 !.sourceKey = IF m = "CopyObject" THEN "sk" ELSE "",
                 !.credentialId = "AK", !.authType = "sigv4-header"]

MCInit ==
  /\ mode = "closed" /\ w = W0
  /\ pc = [t \in Threads |-> "idle"] /\ cur = [t \in Threads |-> NoCall]
  /\ done = 0 /\ unrecorded = {} /\ log = <<>> /\ returned = {} /\ restarts = 0
  /\ ninv = [t \in Threads |-> 0]
  /\ vs = Good(VInit) /\ rs = Good(VInit)

\* the entry reaches the file: both online validators consume it
Written(e) ==
  /\ log' = Append(log, e)
  /\ vs' = IF vs.ok THEN ValidateEntry(vs.v, e, TRUE) ELSE vs
  /\ rs' = IF rs.ok THEN ValidateEntry(rs.v, e, FALSE) ELSE rs
NothingWritten == UNCHANGED <<log, vs, rs>>

\* NewFileSink: what the verifier-less validator recovered = [LastHash, HashBuffer]
Recovered == [last |-> IF log = <<>> THEN ZeroHash ELSE log[Len(log)].hash, buf |-> rs.v.buf]

MCOpen ==
  /\ mode = "closed"
  /\ rs.ok
  /\ Open([empty |-> log = <<>>, w |-> Recovered])
  /\ NothingWritten /\ UNCHANGED <<returned, restarts, ninv>>

MCGenesis ==
  LET e == MkGenesis(Len(log)) IN
  WriteGenesis(e) /\ Written(e) /\ UNCHANGED <<returned, restarts, ninv>>

MCInvoke(t) ==
  /\ ninv[t] < CallsPerThread
  /\ Invoke(t, MCCall(t, ninv[t] + 1))
  /\ ninv' = [ninv EXCEPT ![t] = @ + 1]
  /\ NothingWritten /\ UNCHANGED <<returned, restarts>>

MCLogStart(t) ==
  LET e == MkLog(w, Len(log), ExpectedDetails(cur[t], "START", 0)) IN
  LogStart(t, e) /\ Written(e) /\ UNCHANGED <<returned, restarts, ninv>>

MCInner(t) ==
  \E err \in (IF MCErrors = "both" THEN {"", "boom"} ELSE {IF (ninv[t] + t) % 2 = 0 THEN "" ELSE "boom"}) :
    Inner(t, err, "") /\ NothingWritten /\ UNCHANGED <<returned, restarts, ninv>>

MCLogComplete(t) ==
  LET e == MkLog(w, Len(log), ExpectedDetails(cur[t], "COMPLETE", 1)) IN
  LogComplete(t, e) /\ Written(e) /\ UNCHANGED <<returned, restarts, ninv>>

MCGrounding ==
  LET e == MkGrounding(w, Len(log)) IN
  WriteGrounding(e) /\ Written(e) /\ UNCHANGED <<returned, restarts, ninv>>

MCReturn(t) ==
  /\ Return(t, cur[t].err)
  /\ returned' = returned \cup {[id |-> cur[t].id, err |-> cur[t].err]}
  /\ NothingWritten /\ UNCHANGED <<restarts, ninv>>

\* restart of the process at any buffer fill level, also with calls in flight
MCClose ==
  /\ restarts < MaxRestarts
  /\ Close /\ restarts' = restarts + 1
  /\ NothingWritten /\ UNCHANGED <<returned, ninv>>

MCNext ==
  \/ MCOpen \/ MCGenesis \/ MCGrounding \/ MCClose
  \/ \E t \in Threads : MCInvoke(t) \/ MCLogStart(t) \/ MCInner(t) \/ MCLogComplete(t) \/ MCReturn(t)

MCSpec == MCInit /\ [][MCNext]_vars

\* ------------------------------------------------------------------ properties
\* the written log passes verification: chain, signatures, grounding after every BlockSize LOG entries
\* (vs is Validate(log) computed incrementally; FoldAgrees checks that on the small configuration)
LogVerifies == vs.ok
FoldAgrees  == /\ Validate(log).ok = vs.ok
               /\ Recover(log).ok = rs.ok /\ (rs.ok => Recover(log).w = Recovered)

\* whatever was written so far, a restart recovers exactly the writer's state
RecoverConsistent == mode \in {"ready", "closed"} => (rs.ok /\ (log # <<>> => Recovered = w))

LogEntriesOf(id, phase) ==
  {i \in 1..Len(log) : log[i].type = "LOG" /\ log[i].d.requestId = id /\ log[i].d.phase = phase}

OutcomeOf(err) == IF err = "" THEN "success" ELSE "error"

\* a call whose inner storage call has happened has its START in the log (no COMPLETE yet);
\* a call past LogComplete has START before COMPLETE and the COMPLETE carries the inner outcome
StartBeforeCompleteAfter ==
  \A t \in Threads :
    /\ pc[t] \in {"invoked"} => LogEntriesOf(cur[t].id, "START") = {} /\ LogEntriesOf(cur[t].id, "COMPLETE") = {}
    /\ pc[t] \in {"started", "called"} =>
         Cardinality(LogEntriesOf(cur[t].id, "START")) = 1 /\ LogEntriesOf(cur[t].id, "COMPLETE") = {}
    /\ pc[t] = "completed" =>
         /\ Cardinality(LogEntriesOf(cur[t].id, "START")) = 1
         /\ Cardinality(LogEntriesOf(cur[t].id, "COMPLETE")) = 1
         /\ \A s \in LogEntriesOf(cur[t].id, "START"), c \in LogEntriesOf(cur[t].id, "COMPLETE") :
              s < c /\ log[c].d.outcome = OutcomeOf(cur[t].err)

\* every returned call, of every method, has exactly one START and one COMPLETE entry in the log,
\* in this order, the COMPLETE with the outcome the caller saw
EveryCallRecorded ==
  /\ unrecorded = {}
  /\ \A r \in returned :
       /\ Cardinality(LogEntriesOf(r.id, "START")) = 1
       /\ Cardinality(LogEntriesOf(r.id, "COMPLETE")) = 1
       /\ \A s \in LogEntriesOf(r.id, "START"), c \in LogEntriesOf(r.id, "COMPLETE") :
            s < c /\ log[c].d.outcome = OutcomeOf(r.err)

\* static: the middleware is meant to wrap the whole storage API
AllMethodsAudited == \A m \in StorageMethods : Audited(m)

TypeOK ==
  /\ mode \in {"closed", "genesis", "ready", "grounding"}
  /\ Len(w.buf) <= BlockSize
  /\ mode = "grounding" <=> (Len(w.buf) = BlockSize)
=============================================================================
