------------------------------ MODULE Chunked ------------------------------
(***************************************************************************)
(* C30 - chunked uploads store exactly the decoded payload.                *)
(*                                                                         *)
(* Models, at the grain of the Go code,                                    *)
(*   internal/http/server/server.go      SetupServer (is the SigV4          *)
(*                                        middleware installed at all?)     *)
(*   internal/http/server/authentication/signature.go                       *)
(*       MakeSignatureMiddleware / isAnonymousRequest / checkAuthentication *)
(*       awsChunkReadCloser.Read, validateSignature, readTrailerSection,    *)
(*       validateTrailerChecksum                                            *)
(*   internal/http/server/object_write.go putObjectHandler/uploadPartHandler*)
(*       (body streamed into one storage transaction: commit on clean EOF,  *)
(*        rollback on any reader error)                                     *)
(*                                                                         *)
(* A case is one upload: payload of <=3 symbolic units cut into <=3 chunks, *)
(* a streaming mode, trailer algorithm and framing style, one mutation of   *)
(* the wire, the auth configuration, the operation and whether the key     *)
(* already had content.  Encode(c) is the wire as a sequence of tokens      *)
(* (header line, payload unit, CR, LF, trailer line, trailer-signature      *)
(* line); the decoder is a deterministic step machine over that sequence.   *)
(* Signatures and checksums are symbolic and injective: the signature of    *)
(* chunk j is Sig(<<data_1..data_j>>) (the whole chain it depends on).      *)
(* The harness (harness/cmd/chunked) concretises tokens into bytes with     *)
(* real HMAC-SHA256 chunk signatures and real checksums.                    *)
(*                                                                         *)
(* With Deviations = {} the module is the intended design (every request    *)
(* body with Content-Encoding aws-chunked is decoded; without credentials   *)
(* signatures cannot be verified but framing and trailer checksum are; an   *)
(* inner EOF inside the framing is an error).  Named deviations = what the  *)
(* code is known to do instead:                                             *)
(*  D-C30-no-decode-without-auth  the decoder only exists inside            *)
(*      checkAuthentication: auth disabled / anonymous => raw body stored   *)
(*  D-C30-inner-eof-accepted      an io.EOF of the inner stream while a     *)
(*      chunk header / chunk data / CRLF is expected is passed on as the    *)
(*      regular end of the body                                             *)
(***************************************************************************)
EXTENDS Naturals, Integers, Sequences, FiniteSets, TLC

CONSTANTS Deviations,   \* deviation tags the code is known to have
          Algos,        \* trailer checksum algorithms explored
          Scales,       \* {"unit"} or {"unit","block"}: bytes per symbolic unit
          MCOps         \* operations explored by the model check (subset of Ops)

NoDecodeTag == "D-C30-no-decode-without-auth"
InnerEofTag == "D-C30-inner-eof-accepted"

\* signed = STREAMING-AWS4-HMAC-SHA256-PAYLOAD, signedtrailer = ...-PAYLOAD-TRAILER,
\* unsignedtrailer = STREAMING-UNSIGNED-PAYLOAD-TRAILER, unsigned = STREAMING-UNSIGNED-PAYLOAD
Modes  == {"signed", "signedtrailer", "unsignedtrailer", "unsigned"}
Auths  == {"enabled", "disabled", "anonymous"}
Ops    == {"PutObject", "UploadPart"}
AllAlgos == {"crc32", "crc32c", "crc64nvme", "sha1", "sha256"}
SignedModes  == {"signed", "signedtrailer"}
TrailerModes == {"signedtrailer", "unsignedtrailer"}

\* payload lengths 0..3 units, all compositions into <= 3 chunks
Chunkings == {<<>>, <<1>>, <<2>>, <<1, 1>>, <<3>>, <<1, 2>>, <<2, 1>>, <<1, 1, 1>>}

ModeCfgsOf(algos) ==
  {[mode |-> "signed", algo |-> "none", tstyle |-> "none"],
   [mode |-> "unsigned", algo |-> "none", tstyle |-> "none"]}
  \cup [mode : TrailerModes, algo : algos, tstyle : {"rfc", "blank"}]
ModeCfgs == ModeCfgsOf(Algos)

FramingMuts == {"sizeminus", "sizeplus", "dropfinal", "truncdata", "truncmid", "trunccrlf"}
TruncMuts   == {"truncdata", "truncmid", "trunccrlf"}
MutKinds == {"none", "flip", "chunksig", "dropchunk", "sum", "sumalgo", "sumsigned", "tsig"} \cup FramingMuts

SumSeq(s) == LET S[i \in 0..Len(s)] == IF i = 0 THEN 0 ELSE S[i - 1] + s[i] IN S[Len(s)]

\* mutations applicable to (chunking, mode, scale); at = unit index (flip) or chunk index
MutAts(ch, mode, sc) ==
  LET n == Len(ch) IN
  {<<"none", 0>>}
  \cup {<<"flip", i>> : i \in 1..SumSeq(ch)}
  \cup (IF mode \in SignedModes THEN {<<"chunksig", j>> : j \in 1..(n + 1)} ELSE {})
  \cup (IF mode # "unsigned" THEN {<<"dropchunk", j>> : j \in 1..n} ELSE {})
  \cup (IF mode \in TrailerModes THEN {<<"sum", 0>>, <<"sumalgo", 0>>} ELSE {})
  \cup (IF mode = "signedtrailer" THEN {<<"sumsigned", 0>>, <<"tsig", 0>>} ELSE {})
  \cup (IF sc = "unit"
        THEN {<<"dropfinal", 0>>}
             \cup {<<k, j>> : k \in {"sizeplus", "truncdata", "trunccrlf"}, j \in 1..n}
             \cup {<<"sizeminus", j>> : j \in {x \in 1..n : ch[x] > 1 \/ mode # "unsigned"}}
             \cup {<<"truncmid", j>> : j \in {x \in 1..n : ch[x] > 1}}
        ELSE {})

CanVerifySigs(c) == c.auth = "enabled" /\ c.mode \in SignedModes
HasChecksum(c)   == c.mode \in TrailerModes

\* A size field altered to 0 in a stream that carries no integrity evidence the
\* server can verify is just a shorter valid stream followed by junk: excluded.
Excluded(c) == c.mut = "sizeminus" /\ c.chunks[c.at] = 1 /\ ~CanVerifySigs(c) /\ ~HasChecksum(c)

Valid(c) ==
  /\ c.chunks \in Chunkings
  /\ [mode |-> c.mode, algo |-> c.algo, tstyle |-> c.tstyle] \in ModeCfgsOf(AllAlgos)
  /\ c.scale \in {"unit", "block"}
  /\ <<c.mut, c.at>> \in MutAts(c.chunks, c.mode, c.scale)
  /\ c.auth \in Auths /\ c.op \in Ops /\ c.prev \in BOOLEAN
  /\ ~Excluded(c)

\* (an operator with parameters: TLC evaluates zero-arity constants eagerly at startup)
CasesOf(cfgs, scales) ==
  UNION {{c \in {[chunks |-> ch, mode |-> mc.mode, algo |-> mc.algo, tstyle |-> mc.tstyle,
                  mut |-> ma[1], at |-> ma[2], auth |-> a, op |-> o, prev |-> p, scale |-> sc] :
                 ma \in MutAts(ch, mc.mode, sc), a \in Auths, o \in Ops, p \in BOOLEAN} : ~Excluded(c)} :
         ch \in Chunkings, mc \in cfgs, sc \in scales}

\* ------------------------------------------------------- symbolic crypto
NoSum           == [k |-> "nosum", algo |-> "none", data |-> <<>>]
GarbageSum      == [k |-> "garbage", algo |-> "none", data |-> <<>>]
Sum(a, data)    == [k |-> "sum", algo |-> a, data |-> data]
BadSum(a, data) == [k |-> "badsum", algo |-> a, data |-> data]
NoSig           == [k |-> "none", chain |-> <<>>, sum |-> NoSum]
Sig(chain)      == [k |-> "sig", chain |-> chain, sum |-> NoSum]   \* Sig(<<>>) is the seed signature
BadSig(chain)   == [k |-> "bad", chain |-> chain, sum |-> NoSum]
TSig(chain, s)    == [k |-> "tsig", chain |-> chain, sum |-> s]
BadTSig(chain, s) == [k |-> "badtsig", chain |-> chain, sum |-> s]

\* ------------------------------------------------------------ the wire
Tok(t, id, data, delta, sig, sum) ==
  [t |-> t, id |-> id, data |-> data, delta |-> delta, sig |-> sig, sum |-> sum]
Hdr(data, delta, sig) == Tok("hdr", 0, data, delta, sig, NoSum)
B(id)   == Tok("b", id, <<>>, 0, NoSig, NoSum)
CR      == Tok("cr", 0, <<>>, 0, NoSig, NoSum)
LF      == Tok("lf", 0, <<>>, 0, NoSig, NoSum)
Tr(sum) == Tok("tr", 0, <<>>, 0, NoSig, sum)
Ts(sig) == Tok("ts", 0, <<>>, 0, sig, NoSum)
NoTok   == Tok("none", 0, <<>>, 0, NoSig, NoSum)
LineToks == {"hdr", "tr", "ts"}
JunkCR == 98
JunkLF == 99

Off(ch, j) == SumSeq(SubSeq(ch, 1, j - 1))
ChunkIds(ch, j) == [i \in 1..ch[j] |-> Off(ch, j) + i]
AllIds(ch) == [i \in 1..SumSeq(ch) |-> i]
Chain(ch, j) == [i \in 1..j |-> ChunkIds(ch, i)]            \* what an honest client signed up to chunk j
FinalChain(ch) == Append(Chain(ch, Len(ch)), <<>>)

OtherAlgo(a) == IF a = "crc32" THEN "sha256" ELSE "crc32"
FlipId(c, id) == IF c.mut = "flip" /\ c.at = id THEN id + 10 ELSE id

DataChunk(c, j) ==
  LET ids  == ChunkIds(c.chunks, j)
      sig  == IF c.mode \in SignedModes
              THEN (IF c.mut = "chunksig" /\ c.at = j THEN BadSig(Chain(c.chunks, j)) ELSE Sig(Chain(c.chunks, j)))
              ELSE NoSig
      dlt  == IF c.at = j /\ c.mut = "sizeminus" THEN -1 ELSE IF c.at = j /\ c.mut = "sizeplus" THEN 1 ELSE 0
      body == [i \in 1..Len(ids) |-> B(FlipId(c, ids[i]))]
  IN IF c.mut = "dropchunk" /\ c.at = j THEN <<>>
     ELSE IF c.mut = "truncdata" /\ c.at = j THEN <<Hdr(ids, dlt, sig)>>
     ELSE IF c.mut = "truncmid" /\ c.at = j THEN <<Hdr(ids, dlt, sig), body[1]>>
     ELSE IF c.mut = "trunccrlf" /\ c.at = j THEN <<Hdr(ids, dlt, sig)>> \o body
     ELSE <<Hdr(ids, dlt, sig)>> \o body \o <<CR, LF>>

FinalPart(c) ==
  LET fc    == FinalChain(c.chunks)
      fsig  == IF c.mode \in SignedModes
               THEN (IF c.mut = "chunksig" /\ c.at = Len(c.chunks) + 1 THEN BadSig(fc) ELSE Sig(fc))
               ELSE NoSig
      good  == Sum(c.algo, AllIds(c.chunks))
      bad   == BadSum(c.algo, AllIds(c.chunks))
      other == Sum(OtherAlgo(c.algo), AllIds(c.chunks))       \* correct value, but not the declared algorithm
      sent  == IF c.mut \in {"sum", "sumsigned"} THEN bad ELSE IF c.mut = "sumalgo" THEN other ELSE good
      tsig  == IF c.mut = "tsig" THEN BadTSig(fc, good)
               ELSE IF c.mut = "sumsigned" THEN TSig(fc, bad)   \* client signed its own wrong checksum
               ELSE IF c.mut = "sumalgo" THEN TSig(fc, other)   \* client signed the trailer it sent
               ELSE TSig(fc, good)                               \* "sum": altered after signing
      lines == <<Tr(sent)>> \o (IF c.mode = "signedtrailer" THEN <<Ts(tsig)>> ELSE <<>>)
  IN <<Hdr(<<>>, 0, fsig)>> \o
     (IF c.mode \notin TrailerModes THEN <<CR, LF>>
      ELSE IF c.tstyle = "rfc" THEN lines \o <<CR, LF>>
      ELSE <<CR, LF>> \o lines)

Encode(c) ==
  LET n    == Len(c.chunks)
      last == IF c.mut \in TruncMuts THEN c.at ELSE n
      Cat[j \in 0..n] == IF j = 0 THEN <<>> ELSE Cat[j - 1] \o DataChunk(c, j)
  IN Cat[last] \o (IF c.mut \in TruncMuts \cup {"dropfinal"} THEN <<>> ELSE FinalPart(c))

\* ---------------------------------------------------- reader primitives
IsByteTok(t) == t.t \in {"b", "cr", "lf"}
ByteId(t) == IF t.t = "b" THEN t.id ELSE IF t.t = "cr" THEN JunkCR ELSE JunkLF

\* bufio.Reader.ReadBytes('\n') + Trim: one line starting at pos
ReadLine(w, pos, dmg) ==
  IF pos > Len(w) THEN [kind |-> "empty", tok |-> NoTok, pos |-> pos, eof |-> TRUE]
  ELSE LET t == w[pos] IN
    IF t.t \in LineToks THEN
      IF dmg THEN [kind |-> "garbage", tok |-> NoTok, pos |-> pos + 1, eof |-> FALSE]
      ELSE [kind |-> t.t, tok |-> t, pos |-> pos + 1, eof |-> FALSE]
    ELSE IF t.t = "lf" THEN [kind |-> "empty", tok |-> NoTok, pos |-> pos + 1, eof |-> FALSE]
    ELSE IF t.t = "cr" /\ pos = Len(w) THEN [kind |-> "empty", tok |-> NoTok, pos |-> pos + 1, eof |-> TRUE]
    ELSE IF t.t = "cr" /\ w[pos + 1].t = "lf" THEN [kind |-> "empty", tok |-> NoTok, pos |-> pos + 2, eof |-> FALSE]
    ELSE LET ends == {q \in pos..Len(w) : w[q].t = "lf" \/ w[q].t \in LineToks} IN
         IF ends = {} THEN [kind |-> "garbage", tok |-> NoTok, pos |-> Len(w) + 1, eof |-> TRUE]
         ELSE [kind |-> "garbage", tok |-> NoTok,
               pos |-> 1 + (CHOOSE q \in ends : \A q2 \in ends : q <= q2), eof |-> FALSE]

\* bufio.Reader.Discard(2): does not look at what it discards
Discard1(w, p) ==   \* p = [pos, dmg, short]
  IF p.short \/ p.pos > Len(w) THEN [p EXCEPT !.short = TRUE]
  ELSE IF IsByteTok(w[p.pos]) THEN [p EXCEPT !.pos = p.pos + 1]
  ELSE IF Assert(~p.dmg, "spec hole: second byte of a line token discarded") THEN [p EXCEPT !.dmg = TRUE]
  ELSE p
Discard2(w, pos, dmg) ==
  IF Assert(~dmg, "spec hole: Discard on a damaged line")
  THEN Discard1(w, Discard1(w, [pos |-> pos, dmg |-> FALSE, short |-> FALSE]))
  ELSE [pos |-> pos, dmg |-> dmg, short |-> TRUE]

\* io.ReadFull(innerBuf, p[:m]): how many bytes are available (up to m)
Avail(w, pos, m) ==
  LET stop == {q \in pos..(pos + m - 1) : q > Len(w)} IN
  IF stop = {} THEN m ELSE (CHOOSE q \in stop : \A q2 \in stop : q <= q2) - pos

\* --------------------------------------------------------- decoder state
DInit == [st |-> "Header", pos |-> 1, dmg |-> FALSE, remaining |-> -1,
          chunkSig |-> NoSig, prevSig |-> Sig(<<>>), chunkData |-> <<>>, allData |-> <<>>,
          pending |-> <<>>, out |-> <<>>, sumHdr |-> NoSum, err |-> "none", dev |-> {}, trail |-> {}]

\* does this configuration verify chunk signatures / the trailer signature?
SkipChunkValidation(c) == c.mode \notin SignedModes \/ c.auth # "enabled"
TrailerSigned(c)       == c.mode = "signedtrailer" /\ c.auth = "enabled"

Fail(d, e) == [d EXCEPT !.st = "Err", !.err = e, !.pending = <<>>]

\* The inner stream ended where the framing requires more bytes.  The code hands
\* the inner io.EOF to the consumer, which takes it for the regular end of body.
InnerEOF(d) ==
  IF InnerEofTag \in Deviations
  THEN [d EXCEPT !.st = "EOF", !.pending = <<>>, !.dev = d.dev \cup {InnerEofTag}]
  ELSE Fail(d, "unexpectedEOF")

SigValid(d) == d.chunkSig = Sig(Append(d.prevSig.chain, d.chunkData))

\* Read(): chunkBytesRemaining <= 0 -> parse the next chunk header line
DReadChunkHeader(c, w, d) ==
  LET ln == ReadLine(w, d.pos, d.dmg) IN
  IF ln.eof THEN InnerEOF(d)
  ELSE IF ln.kind # "hdr" THEN Fail(d, IF SkipChunkValidation(c) THEN "parse" ELSE "sig")
  ELSE IF ln.tok.sig = NoSig /\ ~SkipChunkValidation(c) THEN Fail(d, "sig")
  ELSE LET m == Len(ln.tok.data) + ln.tok.delta IN
       [d EXCEPT !.pos = ln.pos, !.dmg = FALSE, !.chunkSig = ln.tok.sig, !.remaining = m,
                 !.st = IF m = 0 THEN "ZeroChunk" ELSE "Data"]

\* Read(): length == 0 -> validateSignature() of the final chunk
DZeroChunk(c, w, d) ==
  LET next == IF c.mode \in TrailerModes THEN "Trailer" ELSE "FinalCRLF" IN
  IF SkipChunkValidation(c) THEN [d EXCEPT !.st = next]
  ELSE IF ~SigValid(d) THEN Fail(d, "sig")
  ELSE [d EXCEPT !.prevSig = d.chunkSig, !.chunkData = <<>>, !.st = next]

\* readTrailerSection(): up to 8 lines, ends at a blank line or EOF; one blank
\* line directly after the zero chunk is tolerated
TrailerLines(w, pos0, dmg0) ==
  LET RECURSIVE Go(_, _, _, _, _)
      Go(i, pos, dmg, sumHdr, tsig) ==
        IF i >= 8 THEN [pos |-> pos, sumHdr |-> sumHdr, tsig |-> tsig]
        ELSE LET ln == ReadLine(w, pos, dmg) IN
          IF ln.kind = "empty"
          THEN IF i = 0 /\ ~ln.eof THEN Go(1, ln.pos, FALSE, sumHdr, tsig)
               ELSE [pos |-> ln.pos, sumHdr |-> sumHdr, tsig |-> tsig]
          ELSE LET ts2 == IF ln.kind = "ts" THEN ln.tok.sig ELSE tsig
                   sh2 == IF ln.kind # "ts" /\ sumHdr = NoSum
                          THEN (IF ln.kind = "tr" THEN ln.tok.sum ELSE GarbageSum) ELSE sumHdr
               IN IF ln.eof THEN [pos |-> ln.pos, sumHdr |-> sh2, tsig |-> ts2]
                  ELSE Go(i + 1, ln.pos, FALSE, sh2, ts2)
  IN Go(0, pos0, dmg0, NoSum, NoSig)

DTrailer(c, w, d) ==
  LET t == TrailerLines(w, d.pos, d.dmg) IN
  IF TrailerSigned(c) /\ t.tsig # TSig(d.prevSig.chain, t.sumHdr) THEN Fail(d, "sig")
  ELSE [d EXCEPT !.pos = t.pos, !.dmg = FALSE, !.sumHdr = t.sumHdr, !.st = "TrailerChecksum"]

\* validateTrailerChecksum()
DTrailerChecksum(c, w, d) ==
  IF d.sumHdr.k \in {"nosum", "garbage"} \/ d.sumHdr.algo # c.algo THEN Fail(d, "malformed")
  ELSE IF d.sumHdr # Sum(c.algo, d.allData) THEN Fail(d, "baddigest")
  ELSE [d EXCEPT !.st = "EOF"]

\* no trailer: Discard(2) of the final CRLF
DFinalCRLF(c, w, d) ==
  LET p == Discard2(w, d.pos, d.dmg) IN
  IF p.short THEN InnerEOF(d) ELSE [d EXCEPT !.pos = p.pos, !.dmg = p.dmg, !.st = "EOF"]

\* io.ReadFull of the chunk data (chunk <= consumer buffer: one call per chunk)
DReadData(c, w, d) ==
  LET k == Avail(w, d.pos, d.remaining) IN
  IF k = 0 THEN InnerEOF(d)                          \* ReadFull: (0, io.EOF)
  ELSE IF k < d.remaining THEN Fail(d, "unexpectedEOF")
  ELSE IF Assert(\A q \in d.pos..(d.pos + k - 1) : IsByteTok(w[q]), "spec hole: line token inside chunk data")
  THEN LET ids == [i \in 1..k |-> ByteId(w[d.pos + i - 1])] IN
       [d EXCEPT !.pos = d.pos + k, !.remaining = 0, !.pending = ids,
                 !.chunkData = d.chunkData \o ids, !.allData = d.allData \o ids, !.st = "CRLF"]
  ELSE d

\* Discard(2) after the chunk data; on error the bytes of this Read are lost
DDiscardCRLF(c, w, d) ==
  LET p == Discard2(w, d.pos, d.dmg) IN
  IF p.short THEN InnerEOF(d)
  ELSE [d EXCEPT !.pos = p.pos, !.dmg = p.dmg,
                 !.st = IF SkipChunkValidation(c) THEN "Return" ELSE "ValidateChunk"]

\* validateSignature() of a data chunk; the chain advances only on success
DValidateChunk(c, w, d) ==
  IF ~SigValid(d) THEN Fail(d, "sig")
  ELSE [d EXCEPT !.prevSig = d.chunkSig, !.chunkData = <<>>, !.st = "Return"]

\* Read() returns n: the chunk's bytes reach the consumer
DReturn(c, w, d) == [d EXCEPT !.out = d.out \o d.pending, !.pending = <<>>, !.st = "Header"]

DDone(d) == d.st \in {"EOF", "Err"}
DStepRaw(c, w, d) ==
  CASE d.st = "Header"          -> DReadChunkHeader(c, w, d)
    [] d.st = "ZeroChunk"       -> DZeroChunk(c, w, d)
    [] d.st = "Trailer"         -> DTrailer(c, w, d)
    [] d.st = "TrailerChecksum" -> DTrailerChecksum(c, w, d)
    [] d.st = "FinalCRLF"       -> DFinalCRLF(c, w, d)
    [] d.st = "Data"            -> DReadData(c, w, d)
    [] d.st = "CRLF"            -> DDiscardCRLF(c, w, d)
    [] d.st = "ValidateChunk"   -> DValidateChunk(c, w, d)
    [] d.st = "Return"          -> DReturn(c, w, d)
\* trail: which decoder states / error kinds this request went through (coverage only)
DStep(c, w, d) ==
  LET d2 == DStepRaw(c, w, d) IN
  [d2 EXCEPT !.trail = d.trail \cup {d.st} \cup (IF d2.st = "Err" THEN {d2.err} ELSE {})]

\* ------------------------------------------------------------- the server
Absent        == [kind |-> "absent", units |-> <<>>]
Prev          == [kind |-> "prev", units |-> <<>>]
Units(s)      == [kind |-> "units", units |-> s]
Raw           == [kind |-> "raw", units |-> <<>>]
Before(c)     == IF c.prev THEN Prev ELSE Absent
RawStored(w)  == IF w = <<>> THEN Units(<<>>) ELSE Raw    \* an empty body is also the empty payload

SInit(c) == [phase |-> "Auth", d |-> DInit, raw |-> FALSE, ok |-> FALSE, stored |-> Before(c), dev |-> {}]

\* SetupServer + MakeSignatureMiddleware: is the request body wrapped in the decoder?
SCheckAuthentication(c, s) ==
  IF c.auth # "enabled" /\ NoDecodeTag \in Deviations
  THEN [s EXCEPT !.phase = "Handler", !.raw = TRUE, !.dev = {NoDecodeTag}]
  ELSE [s EXCEPT !.phase = "Body"]

\* PutObject/UploadPart: commit on clean EOF, roll back on reader error
SHandler(c, w, s) ==
  IF s.raw THEN [s EXCEPT !.phase = "Done", !.ok = TRUE, !.stored = RawStored(w)]
  ELSE IF s.d.st = "EOF"
  THEN [s EXCEPT !.phase = "Done", !.ok = TRUE, !.stored = Units(s.d.out), !.dev = s.d.dev]
  ELSE [s EXCEPT !.phase = "Done", !.ok = FALSE, !.stored = Before(c), !.dev = s.d.dev]

SStep(c, w, s) ==
  CASE s.phase = "Auth"    -> SCheckAuthentication(c, s)
    [] s.phase = "Body"    -> IF DDone(s.d) THEN [s EXCEPT !.phase = "Handler"]
                              ELSE [s EXCEPT !.d = DStep(c, w, s.d)]
    [] s.phase = "Handler" -> SHandler(c, w, s)

RECURSIVE Run(_, _, _)
Run(c, w, s) == IF s.phase = "Done" THEN s ELSE Run(c, w, SStep(c, w, s))
Final(c)  == Run(c, Encode(c), SInit(c))
Result(c) == LET f == Final(c) IN [ok |-> f.ok, stored |-> f.stored]
DevTaken(c) == Final(c).dev
TrailOf(c)  == LET f == Final(c) IN IF f.raw THEN {"raw"} ELSE f.d.trail

\* --------------------------------------------------------------- property
Malformed(c) == c.mut \in FramingMuts
\* the modification contradicts integrity evidence this configuration can verify
Tampered(c) ==
  CASE c.mut \in {"flip", "dropchunk"} -> CanVerifySigs(c) \/ HasChecksum(c)
    [] c.mut = "chunksig"              -> CanVerifySigs(c)
    [] c.mut \in {"sum", "sumalgo", "sumsigned"} -> TRUE
    [] c.mut = "tsig"                  -> CanVerifySigs(c)
    [] OTHER                           -> FALSE
\* payload of the stream as sent (framing intact)
SentUnits(c) ==
  LET keep == {j \in 1..Len(c.chunks) : ~(c.mut = "dropchunk" /\ c.at = j)}
      Cat[j \in 0..Len(c.chunks)] ==
        IF j = 0 THEN <<>>
        ELSE Cat[j - 1] \o (IF j \in keep THEN [i \in 1..c.chunks[j] |-> FlipId(c, ChunkIds(c.chunks, j)[i])] ELSE <<>>)
  IN Cat[Len(c.chunks)]

C30Holds(c, out) ==
  IF Malformed(c) \/ Tampered(c)
  THEN ~out.ok /\ out.stored = Before(c)
  ELSE /\ out.ok => out.stored = Units(SentUnits(c))
       /\ ~out.ok => out.stored = Before(c)
       /\ c.auth \in {"enabled", "disabled"} => out.ok

\* ------------------------------------------------------ model checking
VARIABLES case, wire, srv
vars == <<case, wire, srv>>
Init == case \in {c \in CasesOf(ModeCfgs, Scales) : c.op \in MCOps} /\ wire = Encode(case) /\ srv = SInit(case)

InBody(st) == srv.phase = "Body" /\ ~DDone(srv.d) /\ srv.d.st = st
Dec(d2)    == srv' = [srv EXCEPT !.d = d2] /\ UNCHANGED <<case, wire>>
CheckAuthentication     == srv.phase = "Auth" /\ srv' = SCheckAuthentication(case, srv) /\ UNCHANGED <<case, wire>>
ReadChunkHeader         == InBody("Header") /\ Dec(DStep(case, wire, srv.d))
ValidateFinalChunk      == InBody("ZeroChunk") /\ Dec(DStep(case, wire, srv.d))
ReadTrailerSection      == InBody("Trailer") /\ Dec(DStep(case, wire, srv.d))
ValidateTrailerChecksum == InBody("TrailerChecksum") /\ Dec(DStep(case, wire, srv.d))
DiscardFinalCRLF        == InBody("FinalCRLF") /\ Dec(DStep(case, wire, srv.d))
ReadData                == InBody("Data") /\ Dec(DStep(case, wire, srv.d))
DiscardCRLF             == InBody("CRLF") /\ Dec(DStep(case, wire, srv.d))
ValidateSignature       == InBody("ValidateChunk") /\ Dec(DStep(case, wire, srv.d))
ReturnData              == InBody("Return") /\ Dec(DStep(case, wire, srv.d))
BodyConsumed == srv.phase = "Body" /\ DDone(srv.d) /\ srv' = [srv EXCEPT !.phase = "Handler"] /\ UNCHANGED <<case, wire>>
CommitOrRollback == srv.phase = "Handler" /\ srv' = SHandler(case, wire, srv) /\ UNCHANGED <<case, wire>>

Next == \/ CheckAuthentication \/ ReadChunkHeader \/ ValidateFinalChunk \/ ReadTrailerSection
        \/ ValidateTrailerChecksum \/ DiscardFinalCRLF \/ ReadData \/ DiscardCRLF
        \/ ValidateSignature \/ ReturnData \/ BodyConsumed \/ CommitOrRollback
Spec == Init /\ [][Next]_vars

IsPrefix(a, b) == Len(a) <= Len(b) /\ SubSeq(b, 1, Len(a)) = a
WireData(w) == LET idx == {q \in 1..Len(w) : w[q].t = "b"}
                   F[q \in 0..Len(w)] == IF q = 0 THEN <<>> ELSE IF q \in idx THEN Append(F[q - 1], w[q].id) ELSE F[q - 1]
               IN F[Len(w)]

\* StoredIsDecoded: a finished request satisfies the property
StoredIsDecoded == srv.phase = "Done" => C30Holds(case, [ok |-> srv.ok, stored |-> srv.stored])
\* the step machine and the result operator agree
RunAgrees == srv.phase = "Done" => Result(case) = [ok |-> srv.ok, stored |-> srv.stored]
\* only bytes that were on the wire as chunk data, in order, ever reach the consumer
DeliveredIsWirePrefix ==
  ~Malformed(case) => IsPrefix(srv.d.out \o srv.d.pending, WireData(wire))
\* with verification on, the chain only ever advances along honest signatures
ChainHonest ==
  CanVerifySigs(case) =>
    /\ srv.d.prevSig.k = "sig"
    /\ IsPrefix(srv.d.prevSig.chain, FinalChain(case.chunks))
\* with verification on, nothing of a chunk is delivered before its signature is checked
DeliveredIsVerified ==
  CanVerifySigs(case) => \E j \in 0..Len(case.chunks) :
      srv.d.out = AllIds([i \in 1..j |-> case.chunks[i]]) /\ Len(srv.d.prevSig.chain) >= j
NoDeviationTaken == srv.dev = {} /\ srv.d.dev = {}
=============================================================================
