----------------------------- MODULE ChunkedGen -----------------------------
(* GEN.  Chunked.tla plus two emissions, selected by the environment variable *)
(* VERIF_EMIT and evaluated once at TLC start-up (ASSUME):                    *)
(*  "factors": print the factors of the case space as JSON (the pipeline runs *)
(*             the model check on this module, so one TLC run does both);     *)
(*  "wires":   for the cases the pipeline sampled (CASE_FILE), print the wire  *)
(*             Encode(case) as a token sequence the harness concretises.      *)
EXTENDS Chunked, Json, IOUtils

EmitMode == IF "VERIF_EMIT" \in DOMAIN IOEnv THEN IOEnv.VERIF_EMIT ELSE "none"

\* One record per (chunking, mode cfg, scale, auth) with the set of applicable mutations;
\* the pipeline takes the product with ops x prevs and samples (seeded).  The product is
\* exactly CasesOf(all mode cfgs, both scales); stage 2 and the trace spec re-check
\* Valid(c) for every executed case.
Factors ==
  {[chunks |-> ch, mode |-> mc.mode, algo |-> mc.algo, tstyle |-> mc.tstyle, scale |-> sc, auth |-> a,
    ops |-> Ops, prevs |-> BOOLEAN,
    muts |-> {ma \in MutAts(ch, mc.mode, sc) :
                ~Excluded([chunks |-> ch, mode |-> mc.mode, mut |-> ma[1], at |-> ma[2], auth |-> a])}] :
   ch \in Chunkings, mc \in ModeCfgsOf(AllAlgos), sc \in {"unit", "block"}, a \in Auths}
ASSUME EmitMode = "factors" => \A f \in Factors : PrintT(ToJson(f))

CaseOf(r) == [chunks |-> r.chunks, mode |-> r.mode, algo |-> r.algo, tstyle |-> r.tstyle,
              mut |-> r.mut, at |-> r.at, auth |-> r.auth, op |-> r.op, prev |-> r.prev, scale |-> r.scale]
SumView(s) == [k |-> s.k, algo |-> s.algo, data |-> s.data]
SigView(s) == [k |-> s.k, chain |-> s.chain, sum |-> SumView(s.sum)]
TokView(t) ==
  CASE t.t = "hdr" -> [t |-> "hdr", data |-> t.data, delta |-> t.delta, sig |-> SigView(t.sig)]
    [] t.t = "b"   -> [t |-> "b", id |-> t.id]
    [] t.t = "tr"  -> [t |-> "tr", sum |-> SumView(t.sum)]
    [] t.t = "ts"  -> [t |-> "ts", sig |-> SigView(t.sig)]
    [] OTHER       -> [t |-> t.t]
EmitWires(picked) ==
  \A i \in 1..Len(picked) :
    LET c == CaseOf(picked[i])
        w == Encode(c) IN
    /\ Assert(Valid(c), <<"invalid case", i>>)
    /\ PrintT(ToJson([l |-> i, wire |-> [q \in 1..Len(w) |-> TokView(w[q])]]))
ASSUME EmitMode = "wires" => EmitWires(ndJsonDeserialize(IOEnv.CASE_FILE))

\* trivial behaviour for the "wires" run
WInit == case = 0 /\ wire = <<>> /\ srv = 0
WNext == UNCHANGED vars
=============================================================================
