------------------------------ MODULE CorsTrace ------------------------------
(* TV: one executed case per ndjson line (harness/cmd/cors)                 *)
EXTENDS Cors, Json, IOUtils
Trace == ndJsonDeserialize(IOEnv.TRACE_FILE)
VARIABLE l

CaseOf(r) == [fam |-> r.fam, rules |-> r.rules, origin |-> r.origin, okind |-> r.okind,
              method |-> r.method, acrm |-> r.acrm, acrh |-> r.acrh, hkind |-> r.hkind]
EnvOf(r)  == [mode |-> r.mode, addr |-> r.addr, res |-> r.res, target |-> r.target]

\* The observation.  status/base are HTTP status codes of the request and of the
\* same request stripped of its CORS headers; "next" (was the wrapped handler
\* reached) is observed directly only where the harness owns that handler.
StatusOf(r) == IF r.status = r.base THEN "next"
               ELSE IF r.status = 200 THEN "200"
               ELSE IF r.status = 403 THEN "403" ELSE "other"
Out(r) == [status   |-> StatusOf(r),
           next     |-> IF r.next = "unknown" THEN r.status = r.base ELSE r.next = "yes",
           acao     |-> r.acao, rule |-> r.rule, vary |-> r.vary,
           amethods |-> r.amethods, ach |-> Range(r.ach)]

TagOf(c, e) == IF Response(c, e) # ResponseIntended(c, e) THEN "D-C34-acrh-first-line-only" ELSE "unattributed"

Verdict(r) ==
  LET c == CaseOf(r)
      e == EnvOf(r) IN
  IF ~IsCase(c) \/ e \notin Envs THEN "malformed"
  ELSE IF Out(r) # Response(c, e) THEN "mismatch"
  ELSE IF ~C34Holds(c, e, Out(r)) THEN "finding"
  ELSE "ok"
Report(i) ==
  LET r == Trace[i]
      v == Verdict(r) IN
  IF v = "ok" THEN TRUE
  ELSE PrintT(ToJson([l |-> i, verdict |-> v,
                      tag |-> IF v = "finding" THEN TagOf(CaseOf(r), EnvOf(r)) ELSE "",
                      expected |-> IF v = "malformed" THEN Untouched ELSE Response(CaseOf(r), EnvOf(r)),
                      got |-> Out(r)]))
TInit == l = 1
TNext == l <= Len(Trace) /\ Report(l) /\ l' = l + 1
=============================================================================
