--------------------------- MODULE IntegrityTrace ---------------------------
(* TV for C39.  The trace of harness/cmd/integrity is, per program and stack,         *)
(*   Reset, <the API calls of the state-building program, as in PithosTrace>,         *)
(* and then, per corruption case (each run on a fresh copy of the built state),       *)
(*   Corrupt (the physical parts damaged: store, content, kind, number of files hit), *)
(*   Validate (deleteCorrupted flag, the validator's error class, the failed / passed *)
(*             / deleted object sets, its counters, and the views afterwards).        *)
(* Program calls are validated step by step by PithosTrace's TCall, so the model      *)
(* state S is bound to the real storage when the corruption is applied.  The Corrupt  *)
(* step requires every damaged part to be a physical part of the model state and to   *)
(* have been found on disk.  The Validate step evaluates Integrity.tla:               *)
(*   - the logged outcome must equal ValidateAll(D, ...) for the intended design      *)
(*     (D = {}) or for some subset D of the known deviations, else "mismatch";        *)
(*   - C39Holds is evaluated on the logged outcome; if it fails the line is a         *)
(*     "finding" attributed to D.                                                     *)
(* One record is printed per Validate line (verdict + coverage facts).                *)
EXTENDS Integrity, PithosTrace

VARIABLE corr           \* corruption set applied in the current case
ivars == <<S, res, hist, l, etags, mtimes, prog, taken, corr>>

IsProgramCall(e) == e.call.op \notin {"Reset", "Corrupt", "Validate"}

IInitT == TInit /\ corr = {}
IReset == TReset /\ corr' = {}
ICall == IsProgramCall(Trace[l]) /\ TCall /\ UNCHANGED corr

\* ---- Corrupt
LCorr(e) == {[store |-> e.corr[i].store, c |-> e.corr[i].c, kind |-> e.corr[i].kind] : i \in 1..Len(e.corr)}
CorruptOK(e) ==
  /\ \A i \in 1..Len(e.corr) :
        /\ [store |-> e.corr[i].store, c |-> e.corr[i].c] \in AllParts(S, e.call.stack)
        /\ e.corr[i].kind \in KindsFor([store |-> e.corr[i].store, c |-> e.corr[i].c])
        /\ e.corr[i].nfiles >= 1
  /\ \A i, j \in 1..Len(e.corr) : (e.corr[i].store = e.corr[j].store /\ e.corr[i].c = e.corr[j].c) => i = j
ICorrupt ==
  LET e == Trace[l] IN
  /\ e.call.op = "Corrupt"
  /\ IF CorruptOK(e) THEN TRUE
     ELSE PrintT(ToJson([l |-> l, prog |-> prog, what |-> "corrupt", parts |-> AllParts(S, e.call.stack)])) /\ FALSE
  /\ corr' = LCorr(e)
  /\ l' = l + 1
  /\ UNCHANGED <<S, res, hist, etags, mtimes, prog, taken>>

\* ---- Validate
PairSet(q) == {<<q[i][1], q[i][2]>> : i \in 1..Len(q)}
LOutcome(e) == [err |-> e.err, failed |-> PairSet(e.failed), passed |-> PairSet(e.passed), deleted |-> PairSet(e.deleted)]
CountsOK(e) ==
  /\ e.counts.failed = Len(e.failed) /\ e.counts.ok = Len(e.passed)
  /\ e.counts.total = Len(e.failed) + Len(e.passed) /\ e.counts.deleted = Len(e.deleted)
  /\ Cardinality(PairSet(e.failed)) = Len(e.failed) /\ Cardinality(PairSet(e.passed)) = Len(e.passed)
  /\ e.otheractions = <<>>

\* Views after validation.  A version that references a damaged part cannot be read back as
\* its content any more; its content (and, for the current version, the answer of Get without
\* a version id) is masked on both sides.  Everything else must be exactly the model's.
VDamaged(stack, v) == ~v.dm /\ \E p \in PartRefs(stack, v) : Damage(corr, p) # "none"
SortedVs(St, b, k) == SetToSortSeq({St.objs[b][k][i] : i \in 1..Len(St.objs[b][k])}, LAMBDA x, y : x.vid < y.vid)
MaskV(mv, dmg) == IF dmg THEN [mv EXCEPT !.content = <<"damaged">>] ELSE mv
MKeyX(St, stack, b, k) ==
  LET vs == St.objs[b][k]
      sv == SortedVs(St, b, k)
      cd == HasCurrent(vs) /\ VDamaged(stack, Current(vs)) IN
  [k |-> k,
   cur |-> IF cd THEN "damaged" ELSE CurView(St, b, k),
   curvid |-> IF cd THEN -2 ELSE IF HasCurrent(vs) THEN Current(vs).vid ELSE -1,
   versions |-> [i \in 1..Len(sv) |-> MaskV(MVersion(sv[i]), VDamaged(stack, sv[i]))]]
LKeyX(St, stack, b, kv) ==
  LET vs == St.objs[b][kv.k]
      sv == SortedVs(St, b, kv.k)
      cd == HasCurrent(vs) /\ VDamaged(stack, Current(vs)) IN
  [k |-> kv.k,
   cur |-> IF cd THEN "damaged" ELSE kv.cur,
   curvid |-> IF cd THEN -2 ELSE kv.curvid,
   versions |-> [i \in 1..Len(kv.versions) |->
                   MaskV(LVersion(kv.versions[i]), i <= Len(sv) /\ VDamaged(stack, sv[i]))]]
MBucketX(St, stack, b) ==
  IF St.bver[b] = "Absent" THEN [b |-> b, ver |-> "Absent", keys |-> <<>>, ups |-> <<>>, listed |-> <<>>]
  ELSE [b |-> b, ver |-> St.bver[b],
        keys |-> [i \in 1..Len(KeyOrder(b)) |-> MKeyX(St, stack, b, KeyOrder(b)[i])],
        ups |-> MUploads(St, b), listed |-> MListed(St, b)]
LBucketX(St, stack, bv) ==
  [b |-> bv.b, ver |-> bv.ver,
   keys |-> [i \in 1..Len(bv.keys) |-> LKeyX(St, stack, bv.b, bv.keys[i])],
   ups |-> LUploads(bv.ups), listed |-> bv.listed]
MViewsX(St, stack) == [i \in 1..Len(BucketOrder) |-> MBucketX(St, stack, BucketOrder[i])]
LViewsX(St, stack, vs) == [i \in 1..Len(vs) |-> LBucketX(St, stack, vs[i])]

\* candidate deviation sets, intended design first
IDevSeq == SetToSeq(IDeviations)
ICands == <<{}>> \o [i \in 1..Len(IDevSeq) |-> {IDevSeq[i]}] \o <<IDeviations>>
Explains(e, D) ==
  LET a == ValidateAll(D, S, e.call.stack, corr, e.call.del) IN
  /\ LOutcome(e) = a.r
  /\ (e.err = "" => CountsOK(e))
  /\ LViewsX(a.s, e.call.stack, e.views) = MViewsX(a.s, e.call.stack)
IFirst(e) ==
  IF \E i \in 1..Len(ICands) : Explains(e, ICands[i])
  THEN CHOOSE i \in 1..Len(ICands) : Explains(e, ICands[i]) /\ \A j \in 1..(i - 1) : ~Explains(e, ICands[j])
  ELSE 0

IValidate ==
  LET e == Trace[l]
      stack == e.call.stack
      m == IFirst(e)
      D == IF m = 0 THEN {} ELSE ICands[m]
      a == ValidateAll(D, S, stack, corr, e.call.del)
      rep == Report(S, stack, corr)
      holds == m # 0 /\ C39Holds(S, stack, corr, e.call.del, a)
      \* coverage facts about the case
      dparts == {[store |-> x.store, c |-> x.c] : x \in corr}
      sharers(p) == {o \in Cur(S) : p \in PartRefs(stack, CurV(S, o))}
      facts == [ncur |-> Cardinality(Cur(S)), nrep |-> Cardinality(rep), ncorr |-> Cardinality(corr),
                shared |-> \E p \in dparts : Cardinality(sharers(p)) >= 2,
                hidden |-> \E p \in dparts : sharers(p) = {},
                multi |-> \E o \in rep : Len(CurV(S, o).parts) >= 2,
                composite1 |-> \E o \in Cur(S) : Len(CurV(S, o).parts) = 1 /\ ~CurV(S, o).single,
                cold |-> \E x \in corr : x.store = "cold",
                kinds |-> {x.kind : x \in corr},
                versioned |-> \E o \in rep : S.bver[o[1]] # "Unset"]
  IN
  /\ e.call.op = "Validate"
  /\ PrintT(ToJson([l |-> l, prog |-> prog, case |-> e.case, what |-> "validate",
                    verdict |-> IF m = 0 THEN "mismatch" ELSE IF holds THEN "ok" ELSE "finding",
                    tags |-> IF m # 0 /\ ~holds THEN D ELSE {},
                    dev |-> D, del |-> e.call.del, stack |-> stack,
                    expected |-> [err |-> a.r.err, failed |-> a.r.failed, passed |-> a.r.passed, deleted |-> a.r.deleted],
                    report |-> rep, views_ok |-> LViewsX(a.s, stack, e.views) = MViewsX(a.s, stack),
                    model_views |-> IF m = 0 THEN MViewsX(a.s, stack) ELSE <<>>,
                    facts |-> facts]))
  \* every case runs on a fresh copy of the state the program built: S is not advanced
  /\ l' = l + 1
  /\ UNCHANGED <<S, res, hist, etags, mtimes, prog, taken, corr>>

ITNext == l <= Len(Trace) /\ (IReset \/ ICall \/ ICorrupt \/ IValidate)
=============================================================================
