----------------------------- MODULE TxFsTrace -----------------------------
(* TV for C10: one line per (program, crash point k) executed on the real code *)
(* by harness/cmd/txfs + crashd; k = 0 is the crash-free run.  The line carries *)
(* the program (operations of TxFs.tla), the hook points the write transaction *)
(* of the last operation passed before the process was SIGKILLed, and what a   *)
(* fresh process saw afterwards: classified directory listings, the API view,  *)
(* and digests of the full API projection of the pre-state, of the post-state  *)
(* of the crash-free run and of this observation.                              *)
(* Detail (second configuration): for selected programs print the symbolic     *)
(* pdrv calls, the labels and the predicted outcome of every crash point.      *)
EXTENDS TxFs, Json, IOUtils
VARIABLE l

Trace == ndJsonDeserialize(IOEnv.TRACE_FILE)

InitSt == [db |-> EmptyDb, disk |-> EmptyDisk]
SetupState(ops) == RunSeq(InitSt, ops)
WellFormed(s, ops) == Len(ops) >= 1 /\ SeqEnabled(s, ops)

\* hook points of program p in order (instruction 1 has none unless it is a commit-phase step)
Off(p) == IF Len(p) > 0 /\ Label(p, 1) = "begin" THEN 1 ELSE 0
Points(p) == SubSeq(Labels(p), 1 + Off(p), Len(p))

ViewEq(rv, mv) == /\ \A k \in Keys : rv.objs[k] = mv.objs[k] /\ rv.cls[k] = mv.cls[k] /\ rv.ups[k] = mv.ups[k]
ClassesEq(x, y) == /\ x.tmp = y.tmp /\ x.bakref = y.bakref /\ x.bakunref = y.bakunref /\ x.finalref = y.finalref
                   /\ x.finalunref = y.finalunref /\ x.missing = y.missing /\ x.other = 0
\* The shard stores of one erasure-coded store register their hooks from concurrent goroutines, so
\* WHICH shard directory is ahead is not determined: directories are compared up to a permutation
\* within each logical store.
DirPerms == {pi \in Permutations(Dirs) :
               \A s \in DOMAIN StoreCfg : \A i \in 1..Len(DirsOf(s)) :
                  \E j \in 1..Len(DirsOf(s)) : pi[DirsOf(s)[i]] = DirsOf(s)[j]}
FilesEq(rf, mf) == \E pi \in DirPerms : \A d \in Dirs : ClassesEq(rf[pi[d]], mf[d])

\* everything the model says about line r
Model(r) ==
  LET n  == Len(r.prog)
  IN Bind(SetupState(SubSeq(r.prog, 1, n - 1)), LAMBDA s0 :
     Bind(Apply(s0.db, r.prog[n]), LAMBDA a :
     Bind(ProgramOf(s0.db, r.prog[n], a.body), LAMBDA p :
       LET j  == IF r.k = 0 THEN Len(p) + 1 ELSE r.k + Off(p)
           sc == After(s0, p, a.post, IF j - 1 <= Len(p) THEN j - 1 ELSE Len(p))
           sr == IF r.k = 0 THEN sc ELSE Restarted(sc)      \* what the fresh process finds after Start
       IN [pts  |-> Points(p),
           view |-> View(sr),
           files |-> FileClasses(sr),
           pre  |-> View(s0),
           goal |-> View(After(s0, p, a.post, Len(p)))])))

Verdict(r, m) ==
  IF r.k = 0 /\ (r.err # "" \/ r.killed \/ r.points # m.pts) THEN "mismatch-run"
  ELSE IF r.k > 0 /\ (r.k > Len(m.pts) \/ ~r.killed) THEN "mismatch-points"
  ELSE IF r.k > 0 /\ r.points # SubSeq(m.pts, 1, r.k) THEN "mismatch-points"
  ELSE IF ~ViewEq(r.view, m.view) THEN "mismatch-view"
  ELSE IF ~FilesEq(r.files, m.files) THEN "mismatch-files"
  ELSE IF r.k = 0 /\ (m.view # m.goal \/ r.obs_h # r.post_h) THEN "mismatch-run"
  \* ---- the property, on the state the model of the code explains
  ELSE IF ~Readable(m.view) \/ m.view \notin {m.pre, m.goal} THEN "finding"
  \* ---- the full projection must be the pre- or the post-projection as well
  ELSE IF r.obs_h \notin {r.pre_h, r.post_h} THEN "partial"
  ELSE IF m.view # m.goal /\ r.obs_h # r.pre_h THEN "partial"
  ELSE IF m.view # m.pre /\ r.obs_h # r.post_h THEN "partial"
  ELSE "ok"

Report(i) ==
  LET r == Trace[i]
  IN IF ~WellFormed(InitSt, r.prog) \/ r.stack # Stack
     THEN PrintT(ToJson([l |-> i, verdict |-> "malformed", tag |-> "", case |-> r.case, k |-> r.k]))
     ELSE Bind(Model(r), LAMBDA m : Bind(Verdict(r, m), LAMBDA v :
            IF v = "ok" THEN TRUE
            ELSE PrintT(ToJson([l |-> i, verdict |-> v, tag |-> IF v = "finding" THEN WindowTag ELSE "",
                                case |-> r.case, k |-> r.k, kind |-> r.kind,
                                point |-> IF r.k = 0 THEN "return" ELSE r.points[Len(r.points)],
                                expected |-> [points |-> m.pts, view |-> m.view, files |-> m.files],
                                got |-> [points |-> r.points, view |-> r.view, files |-> r.files,
                                         pre |-> r.obs_h = r.pre_h, post |-> r.obs_h = r.post_h]]))))

Idle == /\ st = InitSt /\ phase = "idle" /\ run = NoRun /\ pc = 0 /\ nops = 0 /\ pre = NoView /\ goal = NoView
TInit == l = 1 /\ Idle
TNext == l <= Len(Trace) /\ Report(l) /\ l' = l + 1 /\ UNCHANGED vars

\* ------------------------------------------------------------------- Detail
ClassArg(cl) == IF cl = "STANDARD" THEN "none" ELSE cl
CallOf(o) ==
  CASE o.op = "Put" -> [op |-> "PutObject", b |-> "b1", k |-> o.k, cond |-> "none", tags |-> "none", meta |-> "none",
                        class |-> ClassArg(o.class), ctype |-> "none", blob |-> o.c]
    [] o.op = "Delete" -> [op |-> "DeleteObject", b |-> "b1", k |-> o.k, cond |-> "none", vid |-> -1]
    [] o.op = "Copy" -> [op |-> "CopyObject", sb |-> "b1", sk |-> o.sk, b |-> "b1", k |-> o.k, mdir |-> "COPY", tdir |-> "COPY",
                         ctype |-> "none", meta |-> "none", tags |-> "none", class |-> ClassArg(o.class), svid |-> -1]
    [] o.op = "CreateUpload" -> [op |-> "CreateUpload", b |-> "b1", k |-> o.k, tags |-> "none", meta |-> "none",
                                 class |-> ClassArg(o.class), ctype |-> "none"]
    [] o.op = "UploadPart" -> [op |-> "UploadPart", b |-> "b1", k |-> o.k, u |-> 0, n |-> o.n, blob |-> o.c]
    [] o.op = "Complete" -> [op |-> "CompleteUpload", b |-> "b1", k |-> o.k, u |-> 0, cond |-> "none", manifest |-> "none"]
    [] o.op = "Abort" -> [op |-> "AbortUpload", b |-> "b1", k |-> o.k, u |-> 0]
    [] o.op = "Transition" -> [op |-> "Transition", b |-> "b1", k |-> o.k, vid |-> -1, cond |-> "none", class |-> o.class]
    [] o.op = "DeleteAll" -> [op |-> "DeleteObjects", b |-> "b1", keys |-> BulkOrder]
\* bucket creation; on a "-notif" stack also the bucket notification rule s3:ObjectRemoved:*
Prelude == <<[op |-> "CreateBucket", b |-> "b1"]>> \o
           (IF Stack = "fs-notif" THEN <<[op |-> "PutNotification", b |-> "b1", events |-> <<"s3:ObjectRemoved:*">>]>> ELSE <<>>)

Detail(prog) ==
  LET n == Len(prog)
  IN Bind(SetupState(SubSeq(prog, 1, n - 1)), LAMBDA s0 :
     Bind(Apply(s0.db, prog[n]), LAMBDA a :
     Bind(ProgramOf(s0.db, prog[n], a.body), LAMBDA p :
       [prog   |-> prog,
        kind   |-> Kind(s0.db, prog[n]),
        calls  |-> Prelude \o [i \in 1..n |-> CallOf(prog[i])],
        instrs |-> [j \in 1..Len(p) |-> p[j].i],
        points |-> Points(p),
        off    |-> Off(p),
        \* outcome of a crash at the boundary before instruction j (j = Len(p)+1: after the last)
        design |-> [j \in 1..(Len(p) + 1) |-> OutcomeD(s0, p, a.post, j, {})],
        code   |-> [j \in 1..(Len(p) + 1) |-> OutcomeD(s0, p, a.post, j, {WindowTag})]])))
DNext == /\ l <= Len(Trace)
         /\ IF WellFormed(InitSt, Trace[l].prog) THEN PrintT(ToJson(Detail(Trace[l].prog)))
            ELSE PrintT(ToJson([malformed |-> l]))
         /\ l' = l + 1 /\ UNCHANGED vars
=============================================================================
