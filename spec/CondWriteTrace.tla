-------------------------- MODULE CondWriteTrace --------------------------
(* TV of concurrent histories recorded from the real storage (harness/cmd/  *)
(* condwrite): per client Invoke and Return events, ordered by a sequence   *)
(* number taken under the trace writer's mutex.  The linearisation points   *)
(* are NOT logged: TLC searches for an order of Lin steps, each placed      *)
(* between the call's Invoke and Return, under which every logged result    *)
(* and the final content are explained by CondWrite.tla.  The ETag token of *)
(* a write is the raw ETag the call returned.  No order => the history is   *)
(* not linearizable w.r.t. the model => violation.                          *)
EXTENDS CondWrite, Json, IOUtils

Trace == ndJsonDeserialize(IOEnv.TRACE_FILE)

VARIABLES l, pend
tvars == <<reg, hist, l, pend, pc, cur, out, known, ntok, nops>>

NoPend == [st |-> "none", op |-> NoOp]
OpOf(e) == [kind |-> e.op.kind, blob |-> e.op.blob, cond |-> e.op.cond, seen |-> e.op.seen, off |-> e.op.off]
ResOf(e) == [err |-> e.res.err, etag |-> e.res.etag, size |-> e.res.size, content |-> e.res.content]

TInit == /\ TLCSet(7, 0)
         /\ reg = Absent /\ hist = <<>> /\ l = 1
         /\ pend = [c \in Clients |-> NoPend]
         /\ pc = [c \in Clients |-> "idle"] /\ cur = [c \in Clients |-> NoOp]
         /\ out = [c \in Clients |-> NoRes] /\ known = [c \in Clients |-> ""] /\ ntok = 1 /\ nops = 0

Frame == UNCHANGED <<pc, cur, out, known, ntok, nops>>

TReset == /\ Trace[l].t = "reset"
          /\ \A c \in Clients : pend[c].st = "none"
          /\ reg' = Absent /\ hist' = <<>> /\ l' = l + 1 /\ pend' = pend /\ Frame

TInvoke == /\ Trace[l].t = "inv"
           /\ pend[Trace[l].c].st = "none"
           /\ pend' = [pend EXCEPT ![Trace[l].c] = [st |-> "invoked", op |-> OpOf(Trace[l])]]
           /\ l' = l + 1 /\ UNCHANGED <<reg, hist>> /\ Frame

\* index of the Return line of client c's call in flight
RetIdx(c) == CHOOSE j \in l..Len(Trace) :
                /\ Trace[j].t = "ret" /\ Trace[j].c = c
                /\ \A i \in l..(j - 1) : ~(Trace[i].t = "ret" /\ Trace[i].c = c)
HasRet(c) == \E j \in l..Len(Trace) : Trace[j].t = "ret" /\ Trace[j].c = c

ResMatches(op, m, g) ==
  /\ m.err = g.err
  /\ (m.err = "" /\ op.kind \in {"Put", "Append"}) => m.size = g.size
  /\ (op.kind = "Get" /\ m.err = "") => (m.content = g.content /\ m.etag = g.etag /\ m.size = g.size)

\* silent linearisation step of client c (unlogged): effect as CondWrite.Effect with the
\* ETag token the call is going to return
\* "bumped" (logged with the Return): the harness simulated a competing metadata-only writer inside
\* the window between this call's read and its compare-and-swap (objrepo.cas hook point).  The call
\* may then fail safe (CondWrite!LinLostCAS) or succeed with its full effect - nothing else.
TLin(c) == /\ pend[c].st = "invoked" /\ HasRet(c)
           /\ LET r == ResOf(Trace[RetIdx(c)])
                  e == Effect(reg, pend[c].op, r.etag)
                  failsafe == [NoRes EXCEPT !.err = LostCASError(pend[c].op)] IN
              IF Trace[RetIdx(c)].bumped /\ CanLoseCAS(reg, pend[c].op) /\ r.err = failsafe.err /\ ~ResMatches(pend[c].op, e.res, r)
              THEN /\ reg' = reg
                   /\ hist' = Append(hist, [c |-> c, op |-> pend[c].op, res |-> failsafe])
              ELSE /\ ResMatches(pend[c].op, e.res, r)
                   /\ reg' = e.reg
                   /\ hist' = Append(hist, [c |-> c, op |-> pend[c].op, res |-> e.res])
           /\ pend' = [pend EXCEPT ![c].st = "lin"]
           /\ l' = l /\ Frame

TReturn == /\ Trace[l].t = "ret"
           /\ pend[Trace[l].c].st = "lin"
           /\ pend' = [pend EXCEPT ![Trace[l].c] = NoPend]
           /\ l' = l + 1 /\ UNCHANGED <<reg, hist>> /\ Frame

\* quiescent read of the key by the harness after all clients finished
TFinal == /\ Trace[l].t = "final"
          /\ \A c \in Clients : pend[c].st = "none"
          /\ IF Trace[l].exists THEN reg.exists /\ reg.content = Trace[l].content /\ reg.etag = Trace[l].etag
             ELSE ~reg.exists
          /\ l' = l + 1 /\ UNCHANGED <<reg, hist, pend>> /\ Frame

TNext == /\ l <= Len(Trace)
         /\ (TReset \/ TInvoke \/ TReturn \/ TFinal \/ \E c \in Clients : TLin(c))

\* the trace is accepted as soon as one path consumed every line: reaching that state
\* violates this "invariant", which is how acceptance is reported
NotAccepted == l <= Len(Trace)
\* high-water mark for diagnostics (workers 1)
HW == TLCSet(7, IF TLCGet(7) > l THEN TLCGet(7) ELSE l)
HWInit == TLCSet(7, 0)
ReportHW == PrintT(ToJson([highwater |-> TLCGet(7), lines |-> Len(Trace)]))
=============================================================================
