---------------------------- MODULE PithosCover ----------------------------
(* State-cover program generation: breadth-first search over PithosMC with the *)
(* model state as VIEW; for every distinct reachable state that was entered by *)
(* an "interesting" call the (shortest) program leading to it is printed.      *)
(* Interesting = the call deleted the current version by id while at least two *)
(* other versions remained, i.e. the store had to decide which version becomes *)
(* current (C02 "current is the most recently written version that exists").   *)
EXTENDS PithosMC, Json

LastC == hist[Len(hist)]
Promotion ==
  /\ hist # <<>> /\ LastC.op = "DeleteObject" /\ LastC.vid # -1 /\ res.err = ""
  /\ Len(S.objs[LastC.b][LastC.k]) >= 2
  /\ \A i \in 1..Len(S.objs[LastC.b][LastC.k]) : S.objs[LastC.b][LastC.k][i].vid # LastC.vid
  \* the candidate rules disagree on which remaining version is the newest: most recently written
  \* (what C02 demands) vs. newest row (created_at) vs. highest version id (null lowest)
  /\ LET vs == S.objs[LastC.b][LastC.k]
         Best(f(_)) == CHOOSE i \in 1..Len(vs) : \A j \in 1..Len(vs) : f(vs[j]) <= f(vs[i])
         W(v) == v.wseq
         C(v) == v.cseq
         V(v) == v.vid
     IN Best(W) # Best(C) \/ Best(W) # Best(V)
Cover == IF Promotion THEN PrintT(ToJson(hist)) ELSE TRUE
=============================================================================
