---------------------------- MODULE PartRefsGen ----------------------------
(* GEN: programs (sequences of calls) for harness/cmd/partrefs.             *)
(*  Mode "walk": random walks (-simulate); the kind of every step follows   *)
(*        one of the category patterns in Patterns (the pipeline draws them *)
(*        from VERIF_SEED), the call itself is chosen by TLC among the      *)
(*        calls of that kind enabled in the model state.                    *)
(*  Mode "scn":  forced schedules: after the fixed prefix of scenario Scn   *)
(*        TLC interleaves (BFS: all, -simulate: sampled) the scenario's     *)
(*        writer script, one full collector run and one reader session.     *)
(* Only calls are printed - never expected results.                         *)
EXTENDS PartRefs, Json, PartRefsPat

CONSTANTS Mode, Depth, ScnSet

VARIABLES hist, pat, scn, wpos, gst, rst

gvars == <<S, hist, pat, scn, wpos, gst, rst>>

C(op, k, c, s, u, n, src, j) == Call(op, k, c, s, u, n, src, j)
D  == "default"
Put(k, c, s)      == C("Put", k, c, s, "", 0, "", 0)
PutBegin(k, c, s) == C("PutBegin", k, c, s, "", 0, "", 0)
PutCommit         == C("PutCommit", "", "", "", "", 0, "", 0)
Del(k)            == C("Delete", k, "", "", "", 0, "", 0)
Copy(src, k, s)   == C("Copy", k, "", s, "", 0, src, 0)
Trans(k, s)       == C("Transition", k, "", s, "", 0, "", 0)
Create(u, k, s)   == C("CreateUpload", k, "", s, u, 0, "", 0)
UpPart(u, n, c)   == C("UploadPart", "", c, "", u, n, "", 0)
UpCopy(u, n, src, j) == C("UploadPartCopy", "", "", "", u, n, src, j)
Complete(u)       == C("Complete", "", "", "", u, 0, "", 0)
Abort(u)          == C("Abort", "", "", "", u, 0, "", 0)
Orphan(s, c)      == C("Orphan", "", c, s, "", 0, "", 0)
RegDrop(k)        == C("RegDrop", k, "", "", "", 0, "", 0)
RegOver(k)        == C("RegOver", k, "", "", "", 0, "", 0)
Tick              == C("Tick", "", "", "", "", 0, "", 0)
OrphanMany(s, c, n) == C("OrphanMany", "", c, s, "", n, "", 0)
ThreePart(k, s)   == <<Create("u1", k, s), UpPart("u1", 1, "a"), UpPart("u1", 2, "b"), UpPart("u1", 3, "c"), Complete("u1")>>
TwoPart(k, s)     == <<Create("u1", k, s), UpPart("u1", 1, "a"), UpPart("u1", 2, "b"), Complete("u1")>>

Other == IF Cardinality(Stores) > 1 THEN CHOOSE s \in Stores : s # D ELSE D

\* scenario = [pre: prefix program, w: writer script, gc: collector runs?, rd: key read by the reader or ""]
Scenarios == <<
  \* 1  leaked (over-counted) shared part: collector reconcile/condemn against a writer re-sharing it
  [pre |-> <<Put("k1", "a", D), RegOver("k1"), Del("k1"), Orphan(D, "b"), Tick>>,
   w |-> <<Put("k2", "a", D), Del("k2")>>, gc |-> TRUE, rd |-> ""],
  \* 2  missing registry row: RestoreMissing / Condemn against delete + re-put of the same content
  [pre |-> <<Put("k1", "a", D), Copy("k1", "k2", D), RegDrop("k1"), Tick>>,
   w |-> <<Del("k1"), Put("k1", "a", D)>>, gc |-> TRUE, rd |-> ""],
  \* 3  registry row dropped while the collector runs (recount in Condemn)
  [pre |-> <<Put("k1", "a", D), Orphan(D, "a"), Tick>>,
   w |-> <<RegDrop("k1"), Copy("k1", "k2", D)>>, gc |-> TRUE, rd |-> ""],
  \* 4  reader of a two-part object against delete
  [pre |-> TwoPart("k1", D) \o <<Tick>>,
   w |-> <<Del("k1")>>, gc |-> FALSE, rd |-> "k1"],
  \* 5  reader of a two-part object against overwrite with other content + copy
  [pre |-> TwoPart("k1", D) \o <<Tick>>,
   w |-> <<Put("k1", "b", D)>>, gc |-> FALSE, rd |-> "k1"],
  \* 6  reader against delete whose first part is only removed by the collector
  [pre |-> TwoPart("k1", D) \o <<RegDrop("k1"), Tick>>,
   w |-> <<Del("k1")>>, gc |-> TRUE, rd |-> "k1"],
  \* 7  reader against a storage-class transition to the other store
  [pre |-> TwoPart("k1", D) \o <<Tick>>,
   w |-> <<Trans("k1", Other), Del("k1")>>, gc |-> FALSE, rd |-> "k1"],
  \* 8  upload sharing a part of an object that is deleted, abort, collector
  [pre |-> <<Put("k1", "a", D), Create("u1", "k2", D), Orphan(Other, "a"), Tick>>,
   w |-> <<UpCopy("u1", 1, "k1", 0), Del("k1"), Abort("u1")>>, gc |-> TRUE, rd |-> ""],
  \* 9  cross-store copy / transition against the collector of both stores
  [pre |-> <<Put("k1", "a", D), Put("k2", "a", Other), RegOver("k2"), Del("k2"), Tick>>,
   w |-> <<Copy("k1", "k2", Other), Trans("k1", Other)>>, gc |-> TRUE, rd |-> ""],
  \* 10 slow upload: the part id is minted before the pass starts (older than the grace window when it
  \*    becomes visible) and the commit falls between any two sections of the pass
  [pre |-> <<Put("k2", "b", D), Orphan(D, "a"), Tick>>,
   w |-> <<PutBegin("k1", "a", D), PutCommit>>, gc |-> TRUE, rd |-> ""],
  \* 11 object whose manifest repeats one deduplicated part: copies and deletes against the collector
  [pre |-> <<Create("u1", "k1", D), UpPart("u1", 1, "a"), UpPart("u1", 2, "a"), Complete("u1"), Tick>>,
   w |-> <<Copy("k1", "k2", D), Del("k1"), Put("k1", "a", D), Del("k2")>>, gc |-> FALSE, rd |-> ""],
  \* 12 reader of a three-part object against delete (a part vanishes while an earlier one is streaming)
  [pre |-> ThreePart("k1", D) \o <<Tick>>,
   w |-> <<Del("k1")>>, gc |-> FALSE, rd |-> "k1"],
  \* 13 reader of a three-part object against overwrite
  [pre |-> ThreePart("k1", D) \o <<Tick>>,
   w |-> <<Put("k1", "b", D)>>, gc |-> FALSE, rd |-> "k1"],
  \* 14 a store holding very many aged unreferenced parts: one pass reclaims all of them
  [pre |-> <<Put("k1", "a", D), OrphanMany(D, "b", MaxId - 8), Tick>>,
   w |-> <<>>, gc |-> TRUE, rd |-> ""],
  \* 15 reader of a three-part object whose parts are only removed by the collector
  [pre |-> ThreePart("k1", D) \o <<RegDrop("k1"), Tick>>,
   w |-> <<Del("k1")>>, gc |-> TRUE, rd |-> "k1"]
>>
Sc == Scenarios[scn]


Run(T, prog) == RunProg(T, prog)

\* ------------------------------------------------------------- walk mode
CatCalls(T, cat) ==
  CASE cat = "W" -> WriterCalls(T)
    [] cat = "F" -> FaultCalls(T)
    [] cat = "T" -> TickCalls(T)
    [] cat = "G" -> IF T.gc.pc = "idle" /\ T.old # Minted(T) THEN TickCalls(T) ELSE GcCalls(T)
    [] cat = "R" -> RdCalls(T)
    [] OTHER -> {}
\* the collector is only started when every minted id is older than the grace
\* window: then the real cutoff is reproducible (the driver sleeps at a Tick)
Usable(T, a) == ~(a.op = "Gc" /\ T.gc.pc = "idle" /\ T.old # Minted(T))
WalkCalls(T) ==
  LET i    == Len(hist) + 1
      cat  == IF i <= Len(pat) THEN pat[i] ELSE "W"
      want == {a \in CatCalls(T, cat) : Usable(T, a)}
  IN IF want # {} THEN want ELSE {a \in AllCalls(T) : Usable(T, a)}

\* -------------------------------------------------------------- scn mode
GcDone == gst = "done" \/ ~Sc.gc
RdDone == rst = "done" \/ Sc.rd = ""
ScnCalls(T) ==
     (IF wpos <= Len(Sc.w) THEN {Sc.w[wpos]} ELSE {})
  \cup (IF ~GcDone THEN (IF T.gc.pc = "idle" /\ T.old # Minted(T) THEN TickCalls(T) ELSE GcCalls(T)) ELSE {})
  \cup (IF ~RdDone THEN (IF rst = "new" THEN {C("RdResolve", Sc.rd, "", "", "", 0, "", 0)} ELSE RdCalls(T)) ELSE {})
ScnFinished == wpos > Len(Sc.w) /\ GcDone /\ RdDone

GenInit == /\ pat \in (IF Mode = "scn" THEN {<<>>} ELSE Patterns)
           /\ scn \in (IF Mode = "scn" THEN ScnSet ELSE {1})
           /\ S = IF Mode = "scn" THEN Run(S0, Scenarios[scn].pre) ELSE S0
           /\ hist = IF Mode = "scn" THEN Scenarios[scn].pre ELSE <<>>
           /\ wpos = 1 /\ gst = "new" /\ rst = "new"

Step(a) == /\ S' = Eff(S, a)
           /\ hist' = Append(hist, a)
           /\ wpos' = IF Mode = "scn" /\ a.op \notin {"Gc", "Tick", "RdResolve", "RdOpen", "RdRead", "RdClose"} THEN wpos + 1 ELSE wpos
           /\ gst' = IF a.op = "Gc" THEN (IF S'.gc.pc = "idle" THEN "done" ELSE "run") ELSE gst
           /\ rst' = IF a.op = "RdClose" THEN "done" ELSE IF a.op = "RdResolve" THEN "run" ELSE rst
           /\ UNCHANGED <<pat, scn>>

GenNext == IF Mode = "scn"
           THEN ~ScnFinished /\ \E a \in ScnCalls(S) : Step(a)
           ELSE Len(hist) < Depth /\ \E a \in WalkCalls(S) : Step(a)

GenSpec == GenInit /\ [][GenNext]_gvars

Finished == IF Mode = "scn" THEN ScnFinished ELSE Len(hist) >= Depth
Emit == IF Finished THEN PrintT(ToJson([prog |-> hist, scn |-> IF Mode = "scn" THEN scn ELSE 0])) ELSE TRUE
=============================================================================
