--------------------------- MODULE ReplicationTrace ---------------------------
(* TV for C23.  The trace is recorded by harness/cmd/replication: TLC-generated   *)
(* programs executed THROUGH the real replication storage.  Each line is validated *)
(* twice:                                                                          *)
(*  (1) PithosTrace (TNext): the replication storage itself must behave like a     *)
(*      storage - result and full views equal the Pithos.tla model (state S);      *)
(*  (2) this module: the model of replication.go (Replication.tla: RepApply)       *)
(*      advances one Pithos state per secondary (Sec); the views logged from each  *)
(*      real secondary must equal the model secondary modulo ids (conformance),    *)
(*      and - the property - after every successful call without explicit version  *)
(*      id every real secondary's projection must equal the real primary's.        *)
EXTENDS PithosTrace, Replication

\* projection modulo version/upload ids of a views value (shape of MViews / LViews)
VCur(kv) ==
  IF kv.cur = "Object"
  THEN IF \E n \in 1..Len(kv.versions) : kv.versions[n].vid = kv.curvid
       THEN LET v == kv.versions[CHOOSE n \in 1..Len(kv.versions) : kv.versions[n].vid = kv.curvid]
            IN [k |-> kv.k, has |-> TRUE, content |-> v.content, ctype |-> v.ctype, meta |-> v.meta, tags |-> v.tags]
       ELSE [k |-> kv.k, has |-> TRUE, content |-> <<"?current version not listed">>, ctype |-> None,
             meta |-> EmptyMeta, tags |-> None]
  ELSE [k |-> kv.k, has |-> FALSE, content |-> <<>>, ctype |-> None, meta |-> EmptyMeta, tags |-> None]
VBucket(bv) ==
  IF bv.ver = "Absent" THEN [b |-> bv.b, exists |-> FALSE, listed |-> <<>>, keys |-> <<>>, ups |-> <<>>]
  ELSE [b |-> bv.b, exists |-> TRUE, listed |-> bv.listed,
        keys |-> [i \in 1..Len(bv.keys) |-> VCur(bv.keys[i])],
        ups |-> [i \in 1..Len(bv.ups) |-> [k |-> bv.ups[i].k, parts |-> bv.ups[i].parts]]]
VProj(views) == [i \in 1..Len(views) |-> VBucket(views[i])]

RDiag(what, x) == PrintT(ToJson([l |-> l, prog |-> prog, what |-> what, detail |-> x]))

SecInit == [i \in 1..NSec |-> InitState(Buckets, Keys, Deviations)]
RTInit == TInit /\ Sec = SecInit /\ umap = <<>> /\ serr = [i \in 1..NSec |-> ""]

\* ---- a bulk delete line: validated like TCall validates a call, with BulkDelete in place of Pithos!Apply,
\* and with the per-entry results (key, deleted, error code) equal to the model's
BA(St, c) == [s |-> BulkDelete(St, c).s, r |-> BulkDelete(St, c).r]
IsBulk(e) == e.call.op = "DeleteObjects"
LEnts(es) == [i \in 1..Len(es) |-> [k |-> es[i].k, deleted |-> es[i].deleted, code |-> es[i].code]]
BFirstMatch(e) ==
  IF \E i \in 1..Len(Cands) : StepMatches(e, BA(With(Cands[i]), e.call))
  THEN CHOOSE i \in 1..Len(Cands) :
         /\ StepMatches(e, BA(With(Cands[i]), e.call))
         /\ \A j \in 1..(i - 1) : ~StepMatches(e, BA(With(Cands[j]), e.call))
  ELSE 0
MatchOf(e) == IF IsBulk(e) THEN BFirstMatch(e) ELSE FirstMatch(e)
TBulk ==
  LET e == Trace[l]
      m == BFirstMatch(e)
      D == IF m = 0 THEN Deviations ELSE Cands[m]
      b == BulkDelete(With(D), e.call)
      a == [s |-> b.s, r |-> b.r]
      E == etags \cup ETagPairs(a.s, e.views)
      M == mtimes \cup MTimePairs(a.s, e.views)
  IN
  /\ IF m = 0
     THEN Diag(l, IF ~ResAgrees(e.call, a.r, LRes(e)) THEN "result"
                  ELSE IF LViews(e.views) # MViews(a.s) THEN "views"
                  ELSE IF ~Functional(M) THEN "mtime" ELSE "etag", a, e) /\ FALSE
     ELSE IF ~FlagsOK(e.views) THEN Diag(l, "flags", a, e) /\ FALSE
     ELSE IF LEnts(e.entries) # b.ents
     THEN RDiag("bulk-entries", [model |-> b.ents, logged |-> LEnts(e.entries)]) /\ FALSE
     ELSE TRUE
  /\ S' = [a.s EXCEPT !.dev = Deviations] /\ res' = a.r /\ hist' = <<e.call>>
  /\ etags' = E /\ mtimes' = M
  /\ prog' = prog /\ taken' = taken /\ l' = l + 1

RCall(e) ==
  LET m == MatchOf(e)
      D == IF m = 0 THEN Deviations ELSE Cands[m]
      r == RepApply(With(D), [i \in 1..NSec |-> [Sec[i] EXCEPT !.dev = D]], umap, e.call)
      prim == VProj(LViews(e.views_p))
      bad == {i \in 1..NSec : VProj(LViews(e.sviews[i])) # VProj(MViews(r.secs[i]))}
      div == {i \in 1..NSec : VProj(LViews(e.sviews[i])) # prim}
  IN
  /\ Sec' = [i \in 1..NSec |-> [r.secs[i] EXCEPT !.dev = Deviations]] /\ umap' = r.um /\ serr' = r.serr
  /\ IF ~NoVid(e.call) THEN RDiag("explicit-version-id call in a replication program", e.call) /\ FALSE
     ELSE IF Len(e.sviews) # NSec THEN RDiag("secondary count", Len(e.sviews)) /\ FALSE
     ELSE IF LViews(e.views_p) # LViews(e.views)
          THEN RDiag("wrapper reads differ from the primary's", <<>>) /\ FALSE
     ELSE IF bad # {}
          THEN LET i == CHOOSE x \in bad : TRUE IN
               RDiag("secondary", [sec |-> i, forwarded |-> Fwd(e.call, umap, i), model_err |-> r.serr[i],
                                   model |-> VProj(MViews(r.secs[i])), logged |-> VProj(LViews(e.sviews[i])),
                                   primary |-> prim]) /\ FALSE
     ELSE IF e.res.err = "" /\ div # {}
          THEN \* the model explains the secondaries but they differ from the primary: C23 violated by a
               \* modelled deviation of replication.go (none is known: reported as unattributed)
               RDiag("diverged", [sec |-> CHOOSE x \in div : TRUE, tags |-> {}]) /\ FALSE
     ELSE TRUE

RTNext ==
  /\ l <= Len(Trace)
  /\ IF Trace[l].call.op = "DeleteObjects" THEN TBulk ELSE TNext
  /\ LET e == Trace[l] IN
     IF e.call.op = "Reset" THEN Sec' = SecInit /\ umap' = <<>> /\ serr' = [i \in 1..NSec |-> ""]
     ELSE IF e.fault # "none" THEN UNCHANGED <<Sec, umap, serr>>
     ELSE RCall(e)

\* C23 on the model states of the validated behaviour
TConverged == Converged
TSecondariesFollow == SecondariesFollow
=============================================================================
