------------------------------- MODULE Proxy -------------------------------
(***************************************************************************)
(* C32 - client IP and scheme are only taken from trusted proxies.         *)
(*                                                                         *)
(* Model of LuaAuthorizer.resolveClientIPAndScheme                          *)
(* (internal/http/server/authorization/lua/luaauthorizer.go) as a pure     *)
(* result operator over symbolic inputs.  A case is a record               *)
(*   trust  : forwarded headers trusted at all (Options.TrustForwarded..)  *)
(*   cidr   : how the trusted-proxy CIDR list was configured               *)
(*   peer   : class of the TCP peer address                                *)
(*   cf,xff,proto : classes of the three forwarded headers                 *)
(*   base   : scheme of the connection itself                              *)
(* The harness concretises every class (see harness/cmd/proxy).            *)
(***************************************************************************)
EXTENDS Naturals, Sequences, FiniteSets, TLC

CONSTANT Deviations      \* set of deviation tags the code is known to have

CidrCfgs == {"none", "valid", "mixed", "allinvalid"}
Peers    == {"v4in", "v4out", "v6in", "v6out", "unparsable", "absent"}
CFs      == {"absent", "ip", "ipspaces", "garbage"}
XFFs     == {"absent", "single", "chain", "garbage", "garbagechain"}
Protos   == {"absent", "http", "https", "HTTPS", "chain", "garbage"}
Bases    == {"http", "https", "empty"}

Cases == [trust : BOOLEAN, cidr : CidrCfgs, peer : Peers, cf : CFs, xff : XFFs,
          proto : Protos, base : Bases]

\* ------------------------------------------------------------------ model
PeerParsable(c) == c.peer \in {"v4in", "v4out", "v6in", "v6out"}
PeerInside(c)   == c.peer \in {"v4in", "v6in"}

ListConfigured(c) == c.cidr # "none"
ListUsable(c)     == c.cidr \in {"valid", "mixed"}

\* The property's notion of "this peer is a trusted proxy".
TrustedIntended(c) ==
  /\ c.trust
  /\ PeerParsable(c)
  /\ \/ ~ListConfigured(c)
     \/ ListUsable(c) /\ PeerInside(c)

\* What the code does when the tag is enabled: an all-invalid list parses to
\* an empty slice, and an empty slice means "trust everybody".
TrustedCode(c) ==
  IF "D-C32-all-invalid-cidrs" \in Deviations
  THEN /\ c.trust
       /\ PeerParsable(c)
       /\ \/ ~ListUsable(c)
          \/ PeerInside(c)
  ELSE TrustedIntended(c)

BaseScheme(c) == IF c.base = "empty" THEN "http" ELSE c.base

\* symbolic result: which source the reported client IP / scheme comes from
ResolveWith(c, trusted) ==
  IF ~trusted THEN [ip |-> "peer", scheme |-> BaseScheme(c)]
  ELSE [ip |-> IF c.cf # "absent"
               THEN (IF c.cf \in {"ip", "ipspaces"} THEN "cf" ELSE "peer")
               ELSE IF c.xff \in {"single", "chain"} THEN "xff" ELSE "peer",
        scheme |-> CASE c.proto \in {"https", "HTTPS", "chain"} -> "https"
                     [] c.proto = "http" -> "http"
                     [] OTHER -> BaseScheme(c)]

Resolve(c)         == ResolveWith(c, TrustedCode(c))
ResolveIntended(c) == ResolveWith(c, TrustedIntended(c))

\* ---------------------------------------------------------------- property
\* out differs from the TCP peer's view only if the peer is a trusted proxy
Differs(c, out) == out.ip # "peer" \/ out.scheme # BaseScheme(c)
C32Holds(c, out) == Differs(c, out) => TrustedIntended(c)

\* ------------------------------------------------------ exhaustive checking
VARIABLE case
Init == case \in Cases
Next == UNCHANGED case
Spec == Init /\ [][Next]_case

\* design-level: the intended resolution satisfies the property on all cases
DesignHolds == C32Holds(case, ResolveIntended(case))
=============================================================================
