------------------------------- MODULE Proxy -------------------------------
(***************************************************************************)
(* C32 - client IP and scheme are only taken from trusted proxies.         *)
(*                                                                         *)
(* Model of LuaAuthorizer.resolveClientIPAndScheme                          *)
(* (internal/http/server/authorization/lua/luaauthorizer.go) as a pure     *)
(* result operator over symbolic inputs.  A case is a record               *)
(*   trust  : forwarded headers trusted at all (Options.TrustForwarded..)  *)
(*   cidr   : how the trusted-proxy CIDR list was configured               *)
(*   peer   : class of the TCP peer address                                *)
(*   cf,xff,proto : classes of the three forwarded headers                 *)
(*   base   : scheme of the connection itself                              *)
(* The harness concretises every class (see harness/cmd/proxy).            *)
(***************************************************************************)
EXTENDS Naturals, Sequences, FiniteSets, TLC

CONSTANT Deviations      \* set of deviation tags the code is known to have

\* The trusted-proxy list is a SET of entry classes; the configuration is named by ToString of that
\* set (the harness parses the name back).  v4net / v6net are valid networks; garbage, badmask
\* (address and mask out of range), barev4 and barev6 (an address without a mask) are entries the
\* parser rejects and ignores.  No peer class equals a bare address, so the cases stay valid if
\* bare addresses were ever accepted as host routes.
Entries  == {"v4net", "v6net", "garbage", "badmask", "barev4", "barev6"}
CidrCfgs == {ToString(S) : S \in SUBSET Entries}
EntriesOf(c) == CHOOSE S \in SUBSET Entries : ToString(S) = c.cidr
\* the four configurations every header combination is crossed with
LegacyLists == {{}, {"v4net", "v6net"}, {"garbage", "v4net", "badmask", "v6net"}, {"garbage", "barev4", "badmask"}}
Peers    == {"v4in", "v4out", "v6in", "v6out", "unparsable", "absent"}
CFs      == {"absent", "ip", "ipspaces", "garbage"}
XFFs     == {"absent", "single", "chain", "garbage", "garbagechain"}
Protos   == {"absent", "http", "https", "HTTPS", "chain", "garbage"}
Bases    == {"http", "https", "empty"}

\* every header combination x the four legacy lists, plus every one of the 64 lists x a reduced
\* header set (the list only interacts with trust and peer)
Cases == [trust : BOOLEAN, cidr : {ToString(S) : S \in LegacyLists}, peer : Peers, cf : CFs, xff : XFFs,
          proto : Protos, base : Bases]
         \cup [trust : BOOLEAN, cidr : CidrCfgs, peer : Peers, cf : {"absent", "ip"}, xff : {"absent", "single"},
                proto : {"absent", "https"}, base : {"http"}]

\* ------------------------------------------------------------------ model
PeerParsable(c) == c.peer \in {"v4in", "v4out", "v6in", "v6out"}
PeerInside(c)   == \/ c.peer = "v4in" /\ "v4net" \in EntriesOf(c)
                   \/ c.peer = "v6in" /\ "v6net" \in EntriesOf(c)

ListConfigured(c) == EntriesOf(c) # {}
ListUsable(c)     == EntriesOf(c) \cap {"v4net", "v6net"} # {}

\* The property's notion of "this peer is a trusted proxy".
TrustedIntended(c) ==
  /\ c.trust
  /\ PeerParsable(c)
  /\ \/ ~ListConfigured(c)
     \/ ListUsable(c) /\ PeerInside(c)

\* What the code does when the tag is enabled: an all-invalid list parses to
\* an empty slice, and an empty slice means "trust everybody".
TrustedCode(c) ==
  IF "D-C32-all-invalid-cidrs" \in Deviations
  THEN /\ c.trust
       /\ PeerParsable(c)
       /\ \/ ~ListUsable(c)
          \/ PeerInside(c)
  ELSE TrustedIntended(c)

BaseScheme(c) == IF c.base = "empty" THEN "http" ELSE c.base

\* symbolic result: which source the reported client IP / scheme comes from
ResolveWith(c, trusted) ==
  IF ~trusted THEN [ip |-> "peer", scheme |-> BaseScheme(c)]
  ELSE [ip |-> IF c.cf # "absent"
               THEN (IF c.cf \in {"ip", "ipspaces"} THEN "cf" ELSE "peer")
               ELSE IF c.xff \in {"single", "chain"} THEN "xff" ELSE "peer",
        scheme |-> CASE c.proto \in {"https", "HTTPS", "chain"} -> "https"
                     [] c.proto = "http" -> "http"
                     [] OTHER -> BaseScheme(c)]

Resolve(c)         == ResolveWith(c, TrustedCode(c))
ResolveIntended(c) == ResolveWith(c, TrustedIntended(c))

\* ---------------------------------------------------------------- property
\* out differs from the TCP peer's view only if the peer is a trusted proxy
Differs(c, out) == out.ip # "peer" \/ out.scheme # BaseScheme(c)
C32Holds(c, out) == Differs(c, out) => TrustedIntended(c)

\* ------------------------------------------------------ exhaustive checking
VARIABLE case
Init == case \in Cases
Next == UNCHANGED case
Spec == Init /\ [][Next]_case

\* design-level: the intended resolution satisfies the property on all cases
DesignHolds == C32Holds(case, ResolveIntended(case))
=============================================================================
