---------------------------- MODULE ListingTrace ----------------------------
(* TV: one executed case per ndjson line; every run (API) of the case is       *)
(* compared page by page with the model of the code (Run under Deviations) and *)
(* C06 (PagingComplete) is evaluated on it.                                    *)
EXTENDS Listing, Json, IOUtils
Trace == ndJsonDeserialize(IOEnv.TRACE_FILE)
VARIABLE l

CaseOf(r) == [kind |-> r.kind, keys |-> r.keys,
              prog |-> MapSeq(r.prog, LAMBDA s : [op |-> s.op, key |-> s.key]),
              ups |-> r.ups, parts |-> r.parts, prefix |-> r.prefix, delim |-> r.delim, max |-> r.max]
PageOf(pg) == [m1 |-> pg.m1, m1set |-> pg.m1set, m2 |-> pg.m2,
               objs |-> MapSeq(pg.objs, LAMBDA e : Ent(e.k, e.v, e.dm)), cps |-> pg.cps,
               trunc |-> pg.trunc, n1 |-> pg.n1, n1set |-> pg.n1set, n2 |-> pg.n2]
RunOf(lr) == [pages |-> MapSeq(lr.pages, PageOf), end |-> lr.end]

WellFormed(c) ==
  /\ c.kind \in {"objects", "versions", "uploads", "parts"}
  /\ c.max \in 1..1000
  /\ Len(c.delim) <= 1

\* the deviation tags that can influence a run of this kind / api: a tag whose
\* trigger does not occur in the case selects the same branch either way
Relevant(c, api) ==
  LET p == c.prefix
      like == (IF Has(p, PCT) \/ Has(p, USC) THEN {TagWild} ELSE {})
              \cup (IF Has(p, UPA) \/ Has(p, LOA) THEN {TagCase} ELSE {})
      dlm == Len(c.delim) > 0
  IN IF api \in HttpObjApis \/ c.kind = "objects" THEN like \cup (IF dlm THEN {TagObjDelim} ELSE {})
     ELSE CASE c.kind = "versions" -> like \cup {TagNull}
            [] c.kind = "uploads"  -> like \cup (IF dlm THEN {TagUplDelim} ELSE {})
            [] c.kind = "parts"    -> {}

\* a smallest set of open deviations under which the model still produces the
\* logged run (candidates tried in order of size; the full set always does)
RECURSIVE FirstExplaining(_, _, _, _, _)
FirstExplaining(c, api, lrun, cands, i) ==
  IF i >= Len(cands) \/ Run(c, api, cands[i]) = lrun THEN cands[i]
  ELSE FirstExplaining(c, api, lrun, cands, i + 1)
Blame(c, api, lrun) ==
  FirstExplaining(c, api, lrun,
                  SetToSortSeq(SUBSET (Deviations \cap Relevant(c, api)),
                               LAMBDA a, b : Cardinality(a) < Cardinality(b)), 1)

RunReport(c, lr) ==
  LET got == RunOf(lr)
      model == Run(c, lr.api, Deviations)
  IN IF got # model
     THEN [api |-> lr.api, verdict |-> "mismatch", tags |-> <<>>, expected |-> model, got |-> got]
     ELSE IF ~PagingComplete(c, lr.api, model)
     THEN LET b == Blame(c, lr.api, got) IN
          [api |-> lr.api, verdict |-> "finding", tags |-> SetToSeq(b),
           expected |-> <<>>, got |-> <<>>]
     ELSE [api |-> lr.api, verdict |-> "ok", tags |-> <<>>, expected |-> <<>>, got |-> <<>>]

Report(i) ==
  LET r == Trace[i]
      c == CaseOf(r)
  IN IF ~WellFormed(c)
     THEN PrintT(ToJson([l |-> i, api |-> "", verdict |-> "malformed", tags |-> <<>>, expected |-> <<>>, got |-> <<>>]))
     ELSE /\ IF c.kind = "versions" /\ r.vids # History(c.prog).vids
             THEN PrintT(ToJson([l |-> i, api |-> "history", verdict |-> "mismatch", tags |-> <<>>,
                                 expected |-> History(c.prog).vids, got |-> r.vids]))
             ELSE TRUE
          /\ IF MapSeq(r.runs, LAMBDA lr : lr.api) # ApisOf(c.kind)
             THEN PrintT(ToJson([l |-> i, api |-> "", verdict |-> "malformed", tags |-> <<>>, expected |-> ApisOf(c.kind), got |-> <<>>]))
             ELSE \A j \in 1..Len(r.runs) :
                    LET rep == RunReport(c, r.runs[j]) IN
                    IF rep.verdict = "ok" THEN TRUE ELSE PrintT(ToJson([l |-> i] @@ rep))

TInit == l = 1 /\ case = Blank
TNext == l <= Len(Trace) /\ Report(l) /\ l' = l + 1 /\ UNCHANGED case
=============================================================================
