---------------------------- MODULE CacheLinTrace ----------------------------
(* TV of concurrent histories of the real, undecorated cache stack            *)
(* (harness/cmd/cache stress): per goroutine Invoke ("inv") and Return        *)
(* ("ret") events in the total order of the trace writer's mutex.  The        *)
(* linearisation points are not logged: TLC explores the placements of the    *)
(* silent Lin steps between a call's inv and ret under CacheLin.tla.          *)
(*  - linearisability is local, so the pipeline projects every round onto     *)
(*    its keys: one mini-round per (round, key); every "reset" line is an     *)
(*    initial state, mini-rounds are independent;                             *)
(*  - a read (Get/GetPart) does not change the abstract state, so it is       *)
(*    linearised deterministically at the first abstract state of its window  *)
(*    that explains its result (preferring an explanation without deviation); *)
(*  - a write (Set/Remove/PutPart/DeletePart) is linearised just before some  *)
(*    Return event (any linearisation can be normalised to that form).        *)
(* A mini-round whose last line is reached prints "accepted" with the         *)
(* deviation tags its linearisation relied upon (the pipeline keeps the       *)
(* smallest set); one that never prints has no linearisation => violation.    *)
(* "race" / "crash" lines (race detector reports, runtime crashes) are        *)
(* accepted only when an open deviation explains them.                        *)
(* The pipeline adds to every inv line the index "ret" of its ret line.       *)
EXTENDS CacheLin, Json, IOUtils

CONSTANTS Clients

Trace == ndJsonDeserialize(IOEnv.TRACE_FILE)

VARIABLES A, l, pend, used, rd, pers, ended
tvars == <<A, l, pend, used, rd, pers, ended>>

NoPend == [st |-> "none", kind |-> "", k |-> "", v |-> "", n |-> 0, ret |-> 0, su |-> {}]
ChunksOf(e) == [i \in 1..Len(e.chunks) |-> [k |-> e.chunks[i].k, v |-> e.chunks[i].v, i |-> e.chunks[i].i]]
IsRead(p) == p.kind \in {"cget", "pget"}
OpOf(p) == [kind |-> p.kind, k |-> p.k, v |-> p.v, n |-> p.n]
ResOf(p) == [st |-> Trace[p.ret].st, chunks |-> ChunksOf(Trace[p.ret])]

\* pending reads are (re-)examined against the abstract state AA
Refresh(pp, AA) ==
  [c \in Clients |->
     IF pp[c].st = "none" \/ ~IsRead(pp[c]) THEN pp[c]
     ELSE LET x == Lin(AA, pers, OpOf(pp[c]), ResOf(pp[c]), FALSE) IN
          IF ~x.ok THEN pp[c]
          ELSE IF pp[c].st = "invoked" THEN [pp[c] EXCEPT !.st = "lin", !.su = x.used]
          ELSE IF Cardinality(x.used) < Cardinality(pp[c].su) THEN [pp[c] EXCEPT !.su = x.used]
          ELSE pp[c]]

TInit == \E i \in {j \in 1..Len(Trace) : Trace[j].t = "reset"} :
            /\ l = i + 1 /\ rd = Trace[i].round /\ pers = Trace[i].pers /\ ended = FALSE
            /\ A = AInit({Trace[i].init[j] : j \in 1..Len(Trace[i].init)}, 2) /\ used = {} /\ pend = [c \in Clients |-> NoPend]

TInvoke == /\ Trace[l].t = "inv"
           /\ LET e == Trace[l]
                  A1 == IF e.kind = "cset" THEN [A EXCEPT !.toks[e.k] = A.toks[e.k] \cup {e.v}]
                        ELSE IF e.kind = "pput" THEN [A EXCEPT !.toks[e.k] = A.toks[e.k] \cup {e.v}] ELSE A
              IN /\ pend[e.c].st = "none"
                 /\ A' = A1
                 /\ pend' = Refresh([pend EXCEPT ![e.c] = [st |-> "invoked", kind |-> e.kind, k |-> e.k, v |-> e.v,
                                                           n |-> e.n, ret |-> e.ret, su |-> {}]], A1)
           /\ l' = l + 1 /\ UNCHANGED <<used, rd, pers, ended>>

OthersInFlight(c) == \E d \in Clients \ {c} : pend[d].st # "none" /\ pend[d].k = pend[c].k /\ pend[d].kind \in {"pput", "pget"}

\* linearisation of a write, just before some Return
TLin(c) == /\ Trace[l].t = "ret"
           /\ pend[c].st = "invoked" /\ ~IsRead(pend[c])
           /\ LET x == Lin(A, pers, OpOf(pend[c]), ResOf(pend[c]), OthersInFlight(c)) IN
              /\ x.ok /\ A' = x.st
              /\ pend' = Refresh([pend EXCEPT ![c].st = "lin", ![c].su = x.used], x.st)
           /\ UNCHANGED <<l, used, rd, pers, ended>>

TReturn == /\ Trace[l].t = "ret"
           /\ pend[Trace[l].c].st = "lin"
           /\ used' = used \cup pend[Trace[l].c].su
           /\ pend' = [pend EXCEPT ![Trace[l].c] = NoPend]
           /\ l' = l + 1 /\ UNCHANGED <<A, rd, pers, ended>>

TRace == /\ Trace[l].t = "race"
         /\ RaceExplained(pers, Trace[l].a, Trace[l].b)
         /\ used' = used \cup {"D-C19-inmem-map-race"}
         /\ l' = l + 1 /\ UNCHANGED <<A, pend, rd, pers, ended>>

TCrash == /\ Trace[l].t = "crash"
          /\ CrashExplained(pers, Trace[l].kind, Trace[l].site, Trace[l].frames)
          /\ used' = used \cup {IF Trace[l].kind = "panic" THEN "D-C19-lfu-oversize-panic" ELSE "D-C19-inmem-map-race"}
          /\ pend' = [c \in Clients |-> NoPend]       \* the process is gone
          /\ l' = l + 1 /\ UNCHANGED <<A, rd, pers, ended>>

AtEnd == IF l > Len(Trace) THEN TRUE ELSE Trace[l].t = "reset"
TEnd == /\ ~ended /\ AtEnd /\ \A c \in Clients : pend[c].st = "none"
        /\ ended' = TRUE
        /\ PrintT(ToJson([round |-> rd, verdict |-> "accepted", used |-> used]))
        /\ UNCHANGED <<A, l, pend, used, rd, pers>>

TNext == \/ TEnd
         \/ /\ ~ended /\ ~AtEnd
            /\ (TInvoke \/ TReturn \/ TRace \/ TCrash \/ \E c \in Clients : TLin(c))
TSpec == TInit /\ [][TNext]_tvars
=============================================================================
