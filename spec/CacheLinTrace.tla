---------------------------- MODULE CacheLinTrace ----------------------------
(* TV of concurrent histories of the real, undecorated cache stack            *)
(* (harness/cmd/cache stress): per goroutine Invoke ("inv") and Return        *)
(* ("ret") events in the total order of the trace writer's mutex.  The        *)
(* linearisation points are not logged: TLC explores every placement of a     *)
(* silent Lin step between a call's inv and ret under CacheLin.tla.  Rounds   *)
(* are independent (every "reset" line is an initial state).  A round whose   *)
(* last line is reached prints "accepted" together with the deviation tags    *)
(* the linearisation relied upon (the pipeline keeps the smallest set); a     *)
(* round that never prints has no linearisation => violation.                 *)
(* "race" / "crash" lines (race detector reports, runtime crashes) are        *)
(* accepted only when an open deviation explains them.                        *)
(* The pipeline adds to every inv line the index "ret" of its ret line.       *)
EXTENDS CacheLin, Json, IOUtils

CONSTANTS Clients

Trace == ndJsonDeserialize(IOEnv.TRACE_FILE)

VARIABLES A, l, pend, used, rd, pers, ended
tvars == <<A, l, pend, used, rd, pers, ended>>

NoPend == [st |-> "none", kind |-> "", k |-> "", v |-> "", n |-> 0, ret |-> 0]
ChunksOf(e) == [i \in 1..Len(e.chunks) |-> [k |-> e.chunks[i].k, v |-> e.chunks[i].v, i |-> e.chunks[i].i]]

TInit == \E i \in {j \in 1..Len(Trace) : Trace[j].t = "reset"} :
            /\ l = i + 1 /\ rd = Trace[i].round /\ pers = Trace[i].pers /\ ended = FALSE
            /\ A = AInit /\ used = {} /\ pend = [c \in Clients |-> NoPend]

TInvoke == /\ Trace[l].t = "inv"
           /\ LET e == Trace[l] IN
              /\ pend[e.c].st = "none"
              /\ pend' = [pend EXCEPT ![e.c] = [st |-> "invoked", kind |-> e.kind, k |-> e.k, v |-> e.v, n |-> e.n, ret |-> e.ret]]
              /\ A' = IF e.kind = "cset" THEN [A EXCEPT !.toks[e.k] = A.toks[e.k] \cup {e.v}]
                      ELSE IF e.kind = "pput" THEN [A EXCEPT !.toks[e.k] = A.toks[e.k] \cup {"p"}] ELSE A
           /\ l' = l + 1 /\ UNCHANGED <<used, rd, pers, ended>>

OthersInFlight(c) == \E d \in Clients \ {c} : pend[d].st # "none" /\ pend[d].k = pend[c].k /\ pend[d].kind \in {"pput", "pget"}

TLin(c) == /\ pend[c].st = "invoked"
           /\ LET r == Trace[pend[c].ret]
                  x == Lin(A, pers, [kind |-> pend[c].kind, k |-> pend[c].k, v |-> pend[c].v, n |-> pend[c].n],
                           [st |-> r.st, chunks |-> ChunksOf(r)], OthersInFlight(c)) IN
              /\ x.ok /\ A' = x.st /\ used' = used \cup x.used
           /\ pend' = [pend EXCEPT ![c].st = "lin"]
           /\ UNCHANGED <<l, rd, pers, ended>>

TReturn == /\ Trace[l].t = "ret"
           /\ pend[Trace[l].c].st = "lin"
           /\ pend' = [pend EXCEPT ![Trace[l].c] = NoPend]
           /\ l' = l + 1 /\ UNCHANGED <<A, used, rd, pers, ended>>

TRace == /\ Trace[l].t = "race"
         /\ RaceExplained(pers, Trace[l].a, Trace[l].b)
         /\ used' = used \cup {"D-C19-inmem-map-race"}
         /\ l' = l + 1 /\ UNCHANGED <<A, pend, rd, pers, ended>>

TCrash == /\ Trace[l].t = "crash"
          /\ CrashExplained(pers, Trace[l].kind, Trace[l].site)
          /\ used' = used \cup {IF Trace[l].kind = "panic" THEN "D-C19-lfu-oversize-panic" ELSE "D-C19-inmem-map-race"}
          /\ pend' = [c \in Clients |-> NoPend]       \* the process is gone
          /\ l' = l + 1 /\ UNCHANGED <<A, rd, pers, ended>>

AtEnd == IF l > Len(Trace) THEN TRUE ELSE Trace[l].t = "reset"
TEnd == /\ ~ended /\ AtEnd /\ \A c \in Clients : pend[c].st = "none"
        /\ ended' = TRUE
        /\ PrintT(ToJson([round |-> rd, verdict |-> "accepted", used |-> used]))
        /\ UNCHANGED <<A, l, pend, used, rd, pers>>

TNext == \/ TEnd
         \/ /\ ~ended /\ ~AtEnd
            /\ (TInvoke \/ TReturn \/ TRace \/ TCrash \/ \E c \in Clients : TLin(c))
TSpec == TInit /\ [][TNext]_tvars
=============================================================================
