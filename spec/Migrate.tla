------------------------------- MODULE Migrate -------------------------------
(***************************************************************************)
(* C37 - storage migration copies every object faithfully.                 *)
(*                                                                         *)
(* Models internal/storage/migrator/migrator.go as invoked by              *)
(* cmd/pithos.go:migrateStorage -> migrator.MigrateStorage(ctx, src, dst): *)
(*   determineMissingBuckets + createMissingBuckets -> CreateMissing       *)
(*   migrateObjectsOfBucketFromSourceStorageToDestinationStorage           *)
(*                                     -> MigrateFrom / MigrateKeys        *)
(*   migrateSingleObject (GetObject, GetObjectTagging, manager.Uploader    *)
(*   through StorageToS3UploadAPIClientAdapter.PutObject /                 *)
(*   CreateMultipartUpload+UploadPart+CompleteMultipartUpload)             *)
(*                                                   -> MigrateObject      *)
(* A refinement over Pithos.tla: source S and destination D are Pithos     *)
(* states; the result is a Pithos state.  The order in which ListBuckets   *)
(* returns the source buckets is not specified by the code (no ORDER BY),  *)
(* so Migrate takes the order as a parameter and conformance accepts any.  *)
(***************************************************************************)
EXTENDS PithosMC

CONSTANT MDeviations     \* deviation tags of this module the code is known to have

SrcBuckets(St) == {b \in Buckets : Exists(St, b)}
CurKeys(St, b) == {k \in Keys : HasCurrent(St.objs[b][k])}
\* ListAllObjectsOfBucket(destination, b) returned at least one object
DstNonEmpty(St, b) == Exists(St, b) /\ CurKeys(St, b) # {}

\* ---------------------------------------------------------------- the code
\* System metadata as it arrives: Expires goes through http.ParseTime / TimeFormat on the way
\* into the SDK input ("D-C37-expires-reformatted"): a parseable value that is not in the
\* canonical IMF-fixdate spelling is rewritten, an unparseable value is dropped.  The symbolic
\* sets: s1, s5 parseable but not canonical (-> s1c, s5c), s4 unparseable (-> s4d), s3
\* canonical, s2 / none without Expires.
SysOut(D, sys) ==
  IF "D-C37-expires-reformatted" \in D
  THEN CASE sys = "s1" -> "s1c" [] sys = "s5" -> "s5c" [] sys = "s4" -> "s4d" [] OTHER -> sys
  ELSE sys
\* StorageClass is not part of the upload input ("D-C37-class-dropped")
ClassOut(D, class) == IF "D-C37-class-dropped" \in D THEN "STANDARD" ELSE class

\* A PutObject call of PithosMC's alphabet (whatever fields the alphabet has, with values the
\* configuration allows); constant, evaluated once.
FreshState == InitState(Buckets, Keys, {})
PutTemplate == CHOOSE c \in {x \in Calls(FreshState) : x.op = "PutObject"} : c.cond = "none"
\* migrateSingleObject: the current version of (b,k) written to the destination as one new
\* object.  Modelled as a plain PutObject on the destination (so the destination's versioning
\* state decides where it lands) whose record is then given the source's content (one part),
\* content type, metadata, tags and class as they arrive.
MigrateObject(Dv, St, Ds, b, k) ==
  LET v == Current(St.objs[b][k])
      put == [PutTemplate EXCEPT !.b = b, !.k = k]
      d1 == Apply(Ds, put).s
      i == LatestIdx(d1.objs[b][k])
      cls == ClassOut(Dv, v.class)
  IN [d1 EXCEPT !.objs[b][k][i].parts = << Flat(v.parts) >>,
                !.objs[b][k][i].ctype = v.ctype,
                !.objs[b][k][i].meta = [sys |-> SysOut(Dv, v.meta.sys), user |-> v.meta.user, redir |-> v.meta.redir],
                !.objs[b][k][i].tags = v.tags,
                !.objs[b][k][i].class = cls,
                !.objs[b][k][i].pcls = << cls >>]

KeySeq2 == <<"k1", "k2">>
RECURSIVE MigrateKeys(_, _, _, _, _)
MigrateKeys(Dv, St, Ds, b, i) ==
  IF i > Len(KeySeq2) THEN Ds
  ELSE IF KeySeq2[i] \in Keys /\ HasCurrent(St.objs[b][KeySeq2[i]])
       THEN MigrateKeys(Dv, St, MigrateObject(Dv, St, Ds, b, KeySeq2[i]), b, i + 1)
       ELSE MigrateKeys(Dv, St, Ds, b, i + 1)

CreateMissing(St, Ds) == [Ds EXCEPT !.bver = [b \in Buckets |-> IF Exists(St, b) /\ ~Exists(Ds, b) THEN "Unset" ELSE @[b]]]

\* buckets one after the other in order `ord`; stops at the first non-empty destination bucket
RECURSIVE MigrateFrom(_, _, _, _, _)
MigrateFrom(Dv, St, Ds, ord, i) ==
  IF i > Len(ord) THEN [d |-> Ds, err |-> ""]
  ELSE IF DstNonEmpty(Ds, ord[i]) THEN [d |-> Ds, err |-> "DestinationNotEmpty"]
  ELSE MigrateFrom(Dv, St, MigrateKeys(Dv, St, Ds, ord[i], 1), ord, i + 1)

Orders(St) == {q \in UNION {[1..n -> SrcBuckets(St)] : n \in {Cardinality(SrcBuckets(St))}} :
                 \A i, j \in DOMAIN q : q[i] = q[j] => i = j}
Migrate(Dv, St, Ds, ord) == MigrateFrom(Dv, St, CreateMissing(St, Ds), ord, 1)

\* --------------------------------------------------------------- the property C37
\* what must be equal between a source object and its copy
Essence(v) == [content |-> SelectSeq(Flat(v.parts), LAMBDA c : c # "c0"), ctype |-> v.ctype, sys |-> v.meta.sys,
               user |-> v.meta.user, redir |-> v.meta.redir, tags |-> v.tags, class |-> v.class]
Conflicts(St, Ds) == {b \in SrcBuckets(St) : DstNonEmpty(Ds, b)}
C37Holds(St, Ds, a) ==
  IF Conflicts(St, Ds) = {}
  THEN /\ a.err = ""
       /\ \A b \in SrcBuckets(St) :
            /\ Exists(a.d, b)
            /\ \A k \in CurKeys(St, b) :
                 /\ HasCurrent(a.d.objs[b][k])
                 /\ Essence(Current(a.d.objs[b][k])) = Essence(Current(St.objs[b][k]))
            \* only current objects are migrated: nothing else appears
            /\ CurKeys(a.d, b) = CurKeys(St, b)
       \* buckets that are not source buckets are left alone
       /\ \A b \in Buckets \ SrcBuckets(St) : a.d.bver[b] = Ds.bver[b] /\ a.d.objs[b] = Ds.objs[b]
  ELSE /\ a.err # ""
       \* nothing in a non-empty destination bucket is overwritten
       /\ \A b \in Conflicts(St, Ds) : a.d.bver[b] = Ds.bver[b] /\ a.d.objs[b] = Ds.objs[b]
       /\ \A b \in Buckets \ SrcBuckets(St) : a.d.bver[b] = Ds.bver[b] /\ a.d.objs[b] = Ds.objs[b]

\* ------------------------------------------------------------ destinations
\* A destination is built by a short program of its own (only CreateBucket / PutObject).
RECURSIVE RunAll(_, _, _)
RunAll(St, calls, i) == IF i > Len(calls) THEN St ELSE RunAll(Apply(St, calls[i]).s, calls, i + 1)
Fresh == FreshState

\* ------------------------------------------------------------ design-level check
\* Reduced transition system over Pithos.tla for the source (see Integrity.tla) and an
\* enumerated family of destinations; the intended migration satisfies C37 for every bucket order.
Has(c, f) == f \in DOMAIN c
MCalls(St) ==
  {c \in Calls(St) :
     /\ c.op = "PutVersioning" => c.status = "Enabled"
     /\ c.op = "CopyObject" => c.svid = -1 /\ c.mdir = "COPY" /\ c.tdir = "COPY" /\ c.meta = None /\ c.tags = None /\ c.class = None
     /\ c.op = "DeleteObject" => c.vid = -1
     /\ c.op = "AppendObject" => c.off = "none"
     /\ (c.op = "CreateUpload" /\ Has(c, "cktype")) => c.cktype = "none"}
MInit == S = Fresh /\ res = NoRes /\ hist = <<>>
MNext == /\ S.clock < MaxClock
         /\ \E c \in MCalls(S) : Apply(S, c).r.err = "" /\ Step(c)
MSpec == MInit /\ [][MNext]_vars

PutCall(b, k, blob, m, t, cl) ==
  [PutTemplate EXCEPT !.b = b, !.k = k, !.blob = blob, !.ctype = None, !.meta = m, !.tags = t, !.class = cl]
MCDsts ==
  { <<>> }
  \cup { << [op |-> "CreateBucket", b |-> b] >> : b \in Buckets }
  \cup { << [op |-> "CreateBucket", b |-> b], PutCall(b, k, CHOOSE x \in Blobs : TRUE, None, None, None) >> : b \in Buckets, k \in Keys }
MCDstStates == {RunAll(Fresh, dp, 1) : dp \in MCDsts}
DesignHolds ==
  \A Ds \in MCDstStates : \A ord \in Orders(S) : C37Holds(S, Ds, Migrate({}, S, Ds, ord))
CodeHolds ==
  \A Ds \in MCDstStates : \A ord \in Orders(S) : C37Holds(S, Ds, Migrate(MDeviations, S, Ds, ord))
MView == [bver |-> S.bver, ups |-> S.ups,
          objs |-> [b \in Buckets |-> [k \in Keys |->
                     [i \in 1..Len(S.objs[b][k]) |-> [vid |-> S.objs[b][k][i].vid, dm |-> S.objs[b][k][i].dm,
                        latest |-> S.objs[b][k][i].latest, parts |-> S.objs[b][k][i].parts,
                        ctype |-> S.objs[b][k][i].ctype, meta |-> S.objs[b][k][i].meta, tags |-> S.objs[b][k][i].tags,
                        class |-> S.objs[b][k][i].class]]]]]
=============================================================================
