------------------------------ MODULE RangeGen ------------------------------
(* GEN: TLC enumerates every symbolic single-spec case (and every header    *)
(* class without specs) for every object kind and prints it as JSON.  The   *)
(* pipeline combines printed specs of one kind into multi-range headers and *)
(* assigns header spellings (seeded sampling of Seq(SymSpecs(kind)) x Styles;*)
(* RangeTrace re-checks WellFormedCase on everything that was executed).    *)
EXTENDS Range, Json

VARIABLE gcase
GenCasesOf(k) ==
  {[obj |-> k, form |-> RangesForm, style |-> "plain", specs |-> <<s>>] : s \in SymSpecs(k)}
  \cup {[obj |-> k, form |-> f, style |-> "plain", specs |-> <<>>] : f \in Forms \ {RangesForm}}
GInit == /\ mobj = [parts |-> <<>>, q |-> 0]
         /\ mhdr = [form |-> "none", specs |-> <<>>]
         /\ gcase \in UNION {GenCasesOf(k) : k \in Kinds}
GNext == UNCHANGED <<mobj, mhdr, gcase>>
\* label: what Resolve says for this case on the model object of its kind
Label(c) ==
  LET obj == ModelObj(c.obj)
      h   == HeaderOf(c, obj) IN
  IF ~WellFormedCase(c, obj) THEN "malformed"
  ELSE IF ~Judged(h) THEN "unjudged"
  ELSE Resolve(h, Size(obj)).kind
Emit == PrintT(ToJson([obj |-> gcase.obj, form |-> gcase.form, style |-> gcase.style, specs |-> gcase.specs,
                       cls |-> Label(gcase)]))
=============================================================================
