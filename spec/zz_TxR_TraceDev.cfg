INIT TInit
NEXT TNext
CONSTANTS
  Deviations = {"D-C36-repeated-close-releases-early"}
  KS = {}
  Modes = {}
  MaxCloses = 0
CHECK_DEADLOCK FALSE
