----------------------------- MODULE ObjectCache -----------------------------
(***************************************************************************)
(* C20 - the object-cache middleware is transparent (sequential part).     *)
(*                                                                         *)
(* Models internal/storage/middlewares/objectcache/objectcache.go in front *)
(* of the Pithos.tla reference model of the inner storage (state S):       *)
(*   hc[b,k]  head cache entry  (OBJECTCACHE_HEAD_<b>_<k>): a snapshot of   *)
(*            what HeadObject answered when the entry was written          *)
(*   bc[b,k]  body cache entry  (OBJECTCACHE_OBJECT_BODY_<b>_<k>)           *)
(*   HeadObject(no version id): head entry if present, else inner + fill   *)
(*   GetObject(no version id, no range): head+body entries if both present,*)
(*            else inner; fills both when the object is not larger than    *)
(*            MaxObjectSizeBytes                                           *)
(*   mutators: the middleware overrides PutObject (tee body into the cache,*)
(*            re-read head; invalidate on error), CopyObject and           *)
(*            Put/DeleteObjectTagging (always invalidate), AppendObject,   *)
(*            DeleteObject, DeleteObjects, CompleteMultipartUpload         *)
(*            (invalidate on success); EVERYTHING ELSE of storage.Storage  *)
(*            is inherited from delegator.DelegatingStorage and touches no *)
(*            cache entry - in particular TransitionObjectStorageClass.    *)
(*   eviction: any entry may disappear at any time.                        *)
(*                                                                         *)
(* Property Transparent: a present head entry equals what the inner storage*)
(* answers now; a present body entry equals the current content.  TLC      *)
(* checks it over ALL calls of the PithosMC alphabet (so a mutator that is *)
(* not overridden is found by enumeration).                                *)
(*                                                                         *)
(* Named deviations:                                                       *)
(*   D-C20-transition-stale   TransitionObjectStorageClass is not          *)
(*        overridden: storage class and Last-Modified of the head entry    *)
(*        stay stale (the property demands invalidation)                   *)
(*   D-C20-cached-key-empty   (trace validation only) answers served from  *)
(*        the head entry carry an empty Object.Key (JSON round trip of     *)
(*        storage.ObjectKey)                                               *)
(*   D-C20-put-over-threshold-panic  (trace validation only) PutObject of  *)
(*        a body larger than MaxObjectSizeBytes panics on the read that    *)
(*        follows the crossing (nil *io.PipeWriter)                        *)
(***************************************************************************)
EXTENDS PithosMC

CONSTANT BigBlobs      \* blobs larger than MaxObjectSizeBytes (never cached)

VARIABLES hc, bc

ovars == <<S, res, hist, hc, bc>>

KeysOf == Buckets \X Keys
NoSnap == [has |-> FALSE, vid |-> -1, content |-> <<>>, single |-> TRUE, ctype |-> None, meta |-> EmptyMeta,
           tags |-> None, class |-> None, mseq |-> 0]
Snapshot(v) == [has |-> TRUE, vid |-> v.vid, content |-> Flat(v.parts), single |-> v.single, ctype |-> v.ctype,
                meta |-> v.meta, tags |-> v.tags, class |-> v.class, mseq |-> v.mseq]
CurAns(St, p) == IF Exists(St, p[1]) /\ HasCurrent(St.objs[p[1]][p[2]])
                 THEN Snapshot(Current(St.objs[p[1]][p[2]])) ELSE NoSnap
NoBody == [has |-> FALSE, content |-> <<>>]
Cacheable(content) == \A i \in 1..Len(content) : content[i] \notin BigBlobs

\* which cache keys the middleware invalidates (or rewrites) for call c that returned err
InvSet(c, err, dev) ==
  CASE c.op \in {"PutObject", "CopyObject", "PutTagging"} -> {<<c.b, c.k>>}
    [] c.op \in {"AppendObject", "DeleteObject", "CompleteUpload"} -> IF err = "" THEN {<<c.b, c.k>>} ELSE {}
    [] c.op = "Transition" -> IF err = "" /\ "D-C20-transition-stale" \notin dev THEN {<<c.b, c.k>>} ELSE {}
    [] OTHER -> {}

\* caches after call c (result r, inner state S2 after the call)
HeadAfter(H, c, r, S2, dev) ==
  [p \in KeysOf |->
     IF p \in InvSet(c, r.err, dev)
     THEN IF c.op = "PutObject" /\ r.err = "" THEN CurAns(S2, p) ELSE NoSnap      \* Put re-reads the head
     ELSE H[p]]
BodyAfter(B, c, r, dev) ==
  [p \in KeysOf |->
     IF p \in InvSet(c, r.err, dev)
     THEN IF c.op = "PutObject" /\ r.err = "" /\ Cacheable(<<c.blob>>)
          THEN [has |-> TRUE, content |-> <<c.blob>>] ELSE NoBody              \* Put tees the body into the cache
     ELSE B[p]]

OInit == /\ S = InitState(Buckets, Keys, Deviations) /\ res = NoRes /\ hist = <<>>
         /\ hc = [p \in KeysOf |-> NoSnap] /\ bc = [p \in KeysOf |-> NoBody]

OCall(c) == LET a == Apply(S, c) IN
            /\ S' = a.s /\ res' = a.r /\ hist' = <<c>>
            /\ hc' = HeadAfter(hc, c, a.r, a.s, S.dev)
            /\ bc' = BodyAfter(bc, c, a.r, S.dev)

\* what the middleware answers (no version id); reading may fill the caches
HeadAnswerOf(p) == IF hc[p].has THEN hc[p] ELSE CurAns(S, p)
GetAnswerOf(p) == IF hc[p].has /\ bc[p].has THEN [h |-> hc[p], body |-> bc[p].content]
                  ELSE [h |-> CurAns(S, p), body |-> CurAns(S, p).content]
OReadHead(p) == /\ ~hc[p].has /\ CurAns(S, p).has
                /\ hc' = [hc EXCEPT ![p] = CurAns(S, p)] /\ UNCHANGED <<S, res, hist, bc>>
OReadGet(p) == /\ ~(hc[p].has /\ bc[p].has) /\ CurAns(S, p).has /\ Cacheable(CurAns(S, p).content)
               /\ hc' = [hc EXCEPT ![p] = CurAns(S, p)]
               /\ bc' = [bc EXCEPT ![p] = [has |-> TRUE, content |-> CurAns(S, p).content]]
               /\ UNCHANGED <<S, res, hist>>
OEvict(p) == \/ hc[p].has /\ hc' = [hc EXCEPT ![p] = NoSnap] /\ UNCHANGED <<S, res, hist, bc>>
             \/ bc[p].has /\ bc' = [bc EXCEPT ![p] = NoBody] /\ UNCHANGED <<S, res, hist, hc>>

ONext == \/ S.clock < MaxClock /\ \E c \in Calls(S) : OCall(c)
         \/ \E p \in KeysOf : OReadHead(p) \/ OReadGet(p) \/ OEvict(p)
OSpec == OInit /\ [][ONext]_ovars

\* C20 (sequential): every answer of the middleware equals the inner storage's answer now
Transparent ==
  \A p \in KeysOf :
     /\ HeadAnswerOf(p) = CurAns(S, p)
     /\ GetAnswerOf(p) = [h |-> CurAns(S, p), body |-> CurAns(S, p).content]
     /\ bc[p].has => (CurAns(S, p).has /\ bc[p].content = CurAns(S, p).content)
OView == <<S, hc, bc>>
=============================================================================
