---------------------------- MODULE MigrateTrace ----------------------------
(* TV for C37.  The trace of harness/cmd/migrate is, per program,                       *)
(*   Reset, <the calls that build the SOURCE, target = "src", as in PithosTrace>,        *)
(* and then, per destination variant,                                                    *)
(*   DstReset, <the calls that build the DESTINATION, target = "dst">,                   *)
(*   Migrate (error class, views of the source and of the destination afterwards).       *)
(* Source calls are validated step by step by PithosTrace's TCall (state S), destination *)
(* calls against a second Pithos state D.  The Migrate step evaluates Migrate.tla: the   *)
(* logged destination must be Migrate(Dv, S, D, ord) for the intended design (Dv = {})   *)
(* or a subset Dv of the known deviations, for SOME order ord of the source buckets      *)
(* (ListBuckets has no ORDER BY), and the source must be unchanged; else "mismatch".     *)
(* C37Holds is evaluated on the explained outcome; if it fails the line is a "finding"   *)
(* attributed to Dv.  One record is printed per Migrate line.                            *)
EXTENDS Migrate, PithosTrace

VARIABLE D              \* model state of the destination
mvars == <<S, res, hist, l, etags, mtimes, prog, taken, D>>

\* concretisation of blob c5 used by the thorough "big" run (cfg: BlobSize <- BlobSizeBig)
BlobSizeBig == [c0 |-> 0, c1 |-> 1, c2 |-> 3, c3 |-> 1000, c4 |-> 70000, c5 |-> 6291457]

IsProgramCall(e) == e.call.op \notin {"Reset", "DstReset", "Migrate"}

MInitT == TInit /\ D = Fresh
MReset == TReset /\ D' = Fresh
MSrcCall == IsProgramCall(Trace[l]) /\ Trace[l].target = "src" /\ TCall /\ UNCHANGED D
MDstReset == /\ Trace[l].call.op = "DstReset"
             /\ D' = Fresh /\ l' = l + 1
             /\ UNCHANGED <<S, res, hist, etags, mtimes, prog, taken>>
MDstCall ==
  LET e == Trace[l]
      a == Apply(D, e.call) IN
  /\ IsProgramCall(e) /\ e.target = "dst"
  /\ IF ResAgrees(e.call, a.r, LRes(e)) /\ LViews(e.views) = MViews(a.s) THEN TRUE
     ELSE PrintT(ToJson([l |-> l, prog |-> prog, what |-> "dstcall", model_res |-> a.r, model_views |-> MViews(a.s)])) /\ FALSE
  /\ D' = a.s /\ l' = l + 1
  /\ UNCHANGED <<S, res, hist, etags, mtimes, prog, taken>>

\* candidate deviation sets, intended design first
MDevSeq == SetToSeq(MDeviations)
MCands == <<{}>> \o [i \in 1..Len(MDevSeq) |-> {MDevSeq[i]}] \o <<MDeviations>>
OrderSeq == SetToSeq(Orders(S))
Explains(e, Dv, ord) ==
  LET a == Migrate(Dv, S, D, ord) IN
  /\ e.err = a.err
  /\ LViews(e.views_dst) = MViews(a.d)
  /\ LViews(e.views) = MViews(S)
MPairs == {<<i, j>> : i \in 1..Len(MCands), j \in 1..Len(OrderSeq)}
MFirst(e) ==
  LET ok == {p \in MPairs : Explains(e, MCands[p[1]], OrderSeq[p[2]])} IN
  IF ok = {} THEN <<0, 0>>
  ELSE CHOOSE p \in ok : \A q \in ok : p[1] <= q[1]

\* per-object attributes that are set (not at their default) on a version
AttrsSet(v) == {a \in {"class", "ctype", "sys", "user", "redir", "tags", "multipart"} :
                  CASE a = "class" -> v.class # "STANDARD" [] a = "ctype" -> v.ctype # None [] a = "sys" -> v.meta.sys # None
                    [] a = "user" -> v.meta.user # None [] a = "redir" -> v.meta.redir # None [] a = "tags" -> v.tags # None
                    [] a = "multipart" -> Len(v.parts) >= 2}
FirstKey(St, b) == IF HasCurrent(St.objs[b]["k1"]) THEN "k1" ELSE "k2"
LastKey(St, b) == IF HasCurrent(St.objs[b]["k2"]) THEN "k2" ELSE "k1"
CurSet(St) == {<<b, k>> : b \in SrcBuckets(St), k \in Keys} \cap {o \in Buckets \X Keys : HasCurrent(St.objs[o[1]][o[2]])}
MMigrate ==
  LET e == Trace[l]
      m == MFirst(e)
      Dv == IF m[1] = 0 THEN {} ELSE MCands[m[1]]
      ord == IF m[1] = 0 THEN OrderSeq[1] ELSE OrderSeq[m[2]]
      a == Migrate(Dv, S, D, ord)
      holds == m[1] # 0 /\ C37Holds(S, D, a)
      cur == CurSet(S)
      V(o) == Current(S.objs[o[1]][o[2]])
      facts == [nobj |-> Cardinality(cur), nbuckets |-> Cardinality(SrcBuckets(S)),
                conflict |-> Conflicts(S, D) # {},
                dstkind |-> IF \A b \in Buckets : ~Exists(D, b) THEN "empty"
                            ELSE IF Conflicts(S, D) # {} THEN "nonempty"
                            ELSE IF \E b \in SrcBuckets(S) : Exists(D, b) THEN "emptysame" ELSE "other",
                glacier |-> \E o \in cur : V(o).class = "GLACIER",
                sys |-> {V(o).meta.sys : o \in cur},
                tags |-> {V(o).tags : o \in cur},
                ctypes |-> {V(o).ctype : o \in cur},
                redir |-> \E o \in cur : V(o).meta.redir # None,
                multipart |-> \E o \in cur : Len(V(o).parts) >= 2,
                big |-> \E o \in cur : "c5" \in {Flat(V(o).parts)[i] : i \in 1..Len(Flat(V(o).parts))},
                empty |-> \E o \in cur : NonEmpty(Flat(V(o).parts)) = <<>>,
                noncurrent |-> \E b \in Buckets, k \in Keys : \E i \in 1..Len(S.objs[b][k]) : ~S.objs[b][k][i].latest,
                marker |-> \E b \in Buckets, k \in Keys : LatestIdx(S.objs[b][k]) # 0 /\ Current(S.objs[b][k]).dm,
                twoorders |-> Len(OrderSeq) >= 2,
                \* attributes SET on an object and DEFAULT on the object migrated right after it
                \* (listing order within a bucket; last object of one bucket -> first of another)
                pairs_in |-> UNION {AttrsSet(V(<<b, "k1">>)) \ AttrsSet(V(<<b, "k2">>)) :
                                      b \in {x \in SrcBuckets(S) : <<x, "k1">> \in cur /\ <<x, "k2">> \in cur}},
                pairs_cross |-> UNION {AttrsSet(V(<<p[1], LastKey(S, p[1])>>)) \ AttrsSet(V(<<p[2], FirstKey(S, p[2])>>)) :
                                         p \in {q \in SrcBuckets(S) \X SrcBuckets(S) :
                                                   q[1] # q[2] /\ CurKeys(S, q[1]) # {} /\ CurKeys(S, q[2]) # {}}}]
  IN
  /\ e.call.op = "Migrate"
  /\ PrintT(ToJson([l |-> l, prog |-> prog, variant |-> e.variant, what |-> "migrate",
                    verdict |-> IF m[1] = 0 THEN "mismatch" ELSE IF holds THEN "ok" ELSE "finding",
                    tags |-> IF m[1] # 0 /\ ~holds THEN Dv ELSE {},
                    dev |-> Dv, err |-> e.err, model_err |-> a.err,
                    src_ok |-> LViews(e.views) = MViews(S),
                    model_dst |-> IF m[1] = 0 THEN MViews(Migrate(MDeviations, S, D, OrderSeq[1]).d) ELSE <<>>,
                    facts |-> facts]))
  /\ l' = l + 1
  /\ UNCHANGED <<S, res, hist, etags, mtimes, prog, taken, D>>

MTNext == l <= Len(Trace) /\ (MReset \/ MSrcCall \/ MDstReset \/ MDstCall \/ MMigrate)
=============================================================================
