---------------------------- MODULE TxReadersGen ----------------------------
(* GEN: every action sequence of TxReaders up to depth 2k+3 (BFS), or random  *)
(* walks (-simulate), printed as a program of calls only (no expected results) *)
EXTENDS TxReaders, Json

VARIABLE hist
gvars == <<k, mode, fnerr, st, pos, closes, failed, remaining, tx, rollbacks, res, devTaken, hist>>

Depth == 2 * k + 3
Count(act, i) == Cardinality({j \in 1..Len(hist) : hist[j].act = act /\ hist[j].i = i})

GInit == Init /\ hist = <<>>

Call(act, i) == hist' = Append(hist, [act |-> act, i |-> i])

\* generation bounds: a partial Read never reaches the end of the range,
\* ReadToEnd once per reader, one ReadAfterClose per reader, <= MaxCloses Closes
GNext ==
  /\ Len(hist) < Depth
  /\ \E i \in 1..k :
       \/ (RLen(i) - pos[i] > StepBytes /\ Read(i) /\ Call("Read", i))
       \/ (Count("ReadToEnd", i) = 0 /\ ReadToEnd(i) /\ Call("ReadToEnd", i))
       \/ (Count("ReadAfterClose", i) = 0 /\ ReadAfterClose(i) /\ Call("ReadAfterClose", i))
       \/ (closes[i] < MaxCloses /\ Close(i) /\ Call("Close", i))
       \/ (closes[i] + 2 <= MaxCloses /\ Count("ConcClose", i) = 0 /\ ConcClose(i) /\ Call("ConcClose", i))

GSpec == GInit /\ [][GNext]_gvars

Program == [k |-> k, fnerr |-> fnerr, ranges |-> RangesOf(k), stepbytes |-> StepBytes,
            partsize |-> PartSize, nparts |-> NParts, steps |-> hist]
Emit == IF Len(hist) = Depth \/ ~ENABLED GNext THEN PrintT(ToJson(Program)) ELSE TRUE
=============================================================================
