------------------------------ MODULE TxReaders ------------------------------
(***************************************************************************)
(* C36 - streaming reads hold their transaction exactly as long as needed. *)
(*                                                                         *)
(* Models database.WithTxReadClosers (internal/storage/database/tx.go):    *)
(* one read transaction, k returned readers, each wrapped by               *)
(* ioutils.NewReadCloserWithCloseHook (internal/ioutils/with_close_hook.go) *)
(* whose hook decrements the shared counter `remaining` and rolls the tx   *)
(* back when it reaches 0, and the readers metadatapart.GetObject returns  *)
(* on a DB-backed part store (internal/storage/metadatapart/               *)
(* object_read.go, metadatapart.go: lazyPartSequenceReadCloser over        *)
(* partstore/sql lazyChunkReadCloser): a reader touches the transaction    *)
(* exactly when it opens the next part of its range.                       *)
(*                                                                         *)
(* One action per call the client of the readers can make:                 *)
(*   Read(i)            partial read of StepBytes bytes                    *)
(*   ReadToEnd(i)       read until EOF                                     *)
(*   Close(i)           close (repeatable)                                 *)
(*   ReadAfterClose(i)  read on a reader the client already closed         *)
(*   ConcClose(i)       two goroutines inside Close(i) at the same time    *)
(* mode = "storage": real GetObject with k byte ranges over a 3-part       *)
(* object; mode = "direct": WithTxReadClosers with fake readers whose      *)
(* every Read call queries the transaction.                                *)
(*                                                                         *)
(* The intended behaviour (Deviations = {}) is what the property demands;  *)
(* the named deviation is what the code is known to do instead.            *)
(***************************************************************************)
EXTENDS Integers, Sequences, FiniteSets, TLC

CONSTANTS Deviations,   \* set of deviation tags the code is known to have
          KS,           \* numbers of readers explored
          Modes,        \* binding modes explored
          MaxCloses     \* bound on Close calls per reader (exploration only)

DevRepeat == "D-C36-repeated-close-releases-early"

MaxK      == 4
Readers   == 1..MaxK
PartSize  == 8
NParts    == 3
ObjSize   == PartSize * NParts
StepBytes == 5

\* byte range [start, end) requested by reader i (storage mode); the fake
\* readers of direct mode serve the same number of bytes
RStart(i) == CASE i = 1 -> 3  [] i = 2 -> 0  [] i = 3 -> 9  [] OTHER -> 5
REnd(i)   == CASE i = 1 -> 23 [] i = 2 -> 24 [] i = 3 -> 22 [] OTHER -> 8
RLen(i)   == REnd(i) - RStart(i)
RangesOf(kk) == [i \in 1..kk |-> <<RStart(i), REnd(i)>>]

VARIABLES k, mode, fnerr,   \* the call: number of readers, binding mode, fn returned an error
          st,               \* per reader "open" | "closed" | "absent"
          pos,              \* per reader bytes delivered so far
          closes,           \* per reader number of Close calls
          failed,           \* per reader: a read failed (its later results are unspecified)
          remaining,        \* the close-hook counter
          tx, rollbacks,    \* "open" | "rolledback", number of rollbacks that finalized the tx
          res,              \* result of the last call
          devTaken          \* deviation tags whose branch was taken
vars == <<k, mode, fnerr, st, pos, closes, failed, remaining, tx, rollbacks, res, devTaken>>

NoRes == [act |-> "none", i |-> 0, n |-> 0, err |-> "none", judged |-> FALSE, any |-> FALSE]

Min(a, b) == IF a < b THEN a ELSE b

\* WithTxReadClosers returns: fn error or no readers => rolled back before returning
InitWith(kk, m, fe) ==
  /\ k = kk /\ mode = m /\ fnerr = fe
  /\ st = [i \in Readers |-> IF i <= kk /\ ~fe THEN "open" ELSE "absent"]
  /\ pos = [i \in Readers |-> 0]
  /\ closes = [i \in Readers |-> 0]
  /\ failed = [i \in Readers |-> FALSE]
  /\ remaining = IF fe THEN 0 ELSE kk
  /\ tx = IF fe \/ kk = 0 THEN "rolledback" ELSE "open"
  /\ rollbacks = IF fe \/ kk = 0 THEN 1 ELSE 0
  /\ res = NoRes
  /\ devTaken = {}

Init == \E kk \in KS, m \in Modes, fe \in BOOLEAN : InitWith(kk, m, fe)

\* ------------------------------------------------ which reads touch the tx
\* storage mode: a part is opened (one query on the tx) by the first read that
\* needs a byte of it; bytes of an opened part are served from memory.
\* FirstNew = first absolute offset in [a, b) that lies in a part not opened
\* yet (b if there is none); direct mode: every Read call queries the tx.
FirstNew(i, a, b) ==
  IF mode = "direct" \/ pos[i] = 0 THEN a
  ELSE LET nb == (((a - 1) \div PartSize) + 1) * PartSize IN Min(nb, b)
NeedsTx(i, a, b) == mode = "direct" \/ (a < b /\ FirstNew(i, a, b) < b)

\* ------------------------------------------------------------------ reads
DoRead(act, i, want) ==
  LET a   == RStart(i) + pos[i]
      rem == RLen(i) - pos[i]
      n   == Min(want, rem)
      b   == a + n
      R(nn, e, j, an) == [act |-> act, i |-> i, n |-> nn, err |-> e, judged |-> j, any |-> an]
  IN
  /\ i \in 1..k /\ st[i] # "absent"
  /\ IF st[i] = "closed" THEN           \* closed by the client itself: EOF, not judged
       /\ res' = R(0, "eof", FALSE, FALSE)
       /\ UNCHANGED <<pos, failed>>
     ELSE IF failed[i] THEN             \* after a failed read the reader is unspecified
       /\ res' = R(0, "none", FALSE, TRUE)
       /\ UNCHANGED <<pos, failed>>
     ELSE IF tx = "rolledback" /\ NeedsTx(i, a, b) THEN
       LET got == FirstNew(i, a, b) - a IN
       /\ res' = R(got, "txdone", TRUE, FALSE)
       /\ pos' = [pos EXCEPT ![i] = @ + got]
       /\ failed' = [failed EXCEPT ![i] = TRUE]
     ELSE
       /\ res' = R(n, IF rem < want THEN "eof" ELSE "none", TRUE, FALSE)
       /\ pos' = [pos EXCEPT ![i] = @ + n]
       /\ UNCHANGED failed
  /\ UNCHANGED <<k, mode, fnerr, st, closes, remaining, tx, rollbacks, devTaken>>

Read(i)           == st[i] = "open"   /\ DoRead("Read", i, StepBytes)
ReadToEnd(i)      == st[i] = "open"   /\ DoRead("ReadToEnd", i, RLen(i) + 1)
ReadAfterClose(i) == st[i] = "closed" /\ DoRead("ReadAfterClose", i, StepBytes)

\* ------------------------------------------------------------------ close
\* one Close call seen from the reader it is made on: s = [st, rem, tx, rb, dv]
CloseOnce(s) ==
  LET dec == [s EXCEPT !.rem = s.rem - 1,
                       !.tx  = IF s.rem - 1 = 0 THEN "rolledback" ELSE s.tx,
                       !.rb  = IF s.rem - 1 = 0 THEN s.rb + 1 ELSE s.rb]
  IN IF s.st = "open" THEN [dec EXCEPT !.st = "closed"]
     ELSE IF DevRepeat \in Deviations
          \* the code (before the fix): the hook runs on every Close, so a repeated Close
          \* of one reader is counted like the Close of another reader
          THEN [dec EXCEPT !.dv = s.dv \cup {DevRepeat}]
          ELSE s

\* n Close calls on reader i, one after the other
CloseN(act, i, n) ==
  LET s0 == [st |-> st[i], rem |-> remaining, tx |-> tx, rb |-> rollbacks, dv |-> devTaken]
      s  == IF n = 1 THEN CloseOnce(s0) ELSE CloseOnce(CloseOnce(s0))
  IN
  /\ i \in 1..k /\ st[i] # "absent"
  /\ closes' = [closes EXCEPT ![i] = @ + n]
  /\ st' = [st EXCEPT ![i] = s.st]
  /\ remaining' = s.rem /\ tx' = s.tx /\ rollbacks' = s.rb /\ devTaken' = s.dv
  /\ res' = [act |-> act, i |-> i, n |-> 0, err |-> "none", judged |-> FALSE, any |-> FALSE]
  /\ UNCHANGED <<k, mode, fnerr, pos, failed>>

Close(i) == CloseN("Close", i, 1)

\* Two goroutines call Close on the SAME reader at the same time (both are inside
\* Close together).  Close is the atomic action above, so whatever the overlap
\* the outcome must be that of the two calls in some order - and both orders
\* are CloseN(i, 2): the reader is counted once, the transaction is released
\* only if it was the last open reader, both calls report success.
ConcClose(i) == CloseN("ConcClose", i, 2)

Next == \E i \in Readers :
          \/ Read(i) \/ ReadToEnd(i) \/ ReadAfterClose(i)
          \/ (closes[i] < MaxCloses /\ Close(i))
          \/ (closes[i] + 2 <= MaxCloses /\ ConcClose(i))

Spec == Init /\ [][Next]_vars

\* --------------------------------------------------------------- property
AllClosed == \A i \in 1..k : st[i] # "open"

\* released exactly once ...
ExactlyOnce == rollbacks \in {0, 1} /\ ((tx = "rolledback") <=> (rollbacks = 1))
\* ... only after all DISTINCT readers were closed (a repeated Close does not release early) ...
NotEarly == tx = "rolledback" => AllClosed
\* ... and as soon as the last one is closed
Released == AllClosed => tx = "rolledback"
\* no read of an open reader fails because another reader was closed
ReadsOK == res.judged => res.err \in {"none", "eof"}

PropOK == ExactlyOnce /\ NotEarly /\ Released /\ ReadsOK

\* design-level auxiliary invariant: the counter counts the open readers
CounterExact == (~fnerr) => remaining = Cardinality({i \in 1..k : st[i] = "open"})

TypeOK == /\ k \in 0..MaxK /\ tx \in {"open", "rolledback"}
          /\ \A i \in Readers : st[i] \in {"open", "closed", "absent"} /\ pos[i] \in 0..RLen(i)
=============================================================================
