--------------------------- MODULE PithosWitness ---------------------------
(* Counterexample-guided program generation: breadth-first search for the      *)
(* SHORTEST program after which some call takes the deviation(s) in            *)
(* Deviations, i.e. makes the model of the code answer differently from the    *)
(* intended design.  The program (calls only) is printed and TLC stops.  The   *)
(* harness replays it on the real code, where trace validation either reports  *)
(* the known finding (still present) or accepts the intended behaviour         *)
(* (repaired).                                                                 *)
EXTENDS PithosMC, Json, TLCExt

Witness ==
  LET bad == {c \in Calls(S) : TakenAt(S, c) # {}} IN
  IF bad = {} THEN TRUE
  ELSE /\ PrintT(ToJson(Append(hist, CHOOSE c \in bad : TRUE)))
       /\ TLCSet("exit", TRUE)
=============================================================================
