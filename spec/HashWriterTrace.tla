--------------------------- MODULE HashWriterTrace ---------------------------
(* TV for C35 (harness/cmd/hashwriter).                                       *)
(*                                                                            *)
(* PSpec - protocol traces of the gated replay: the log holds, in real order  *)
(*   (sequence numbers taken under the trace writer's mutex), the dispatcher's*)
(*   call/return brackets (wcall/wret j, fcall/fret, ccall/cret) and, per     *)
(*   worker, the brackets of h.Write on the recording hash double (hbegin w,  *)
(*   hend w with the block number the double READ from blk.data at the end of *)
(*   its gate).  Add/Send/Swap/WaitRet/FWait/CWait/Recv/Hash/Done are not     *)
(*   logged: TLC searches for a placement of these steps of HashWriter.tla    *)
(*   between the brackets that explains the log.  No placement => the code    *)
(*   did something the protocol model cannot do => violation.  The protocol   *)
(*   invariants are checked on every state of the search.                     *)
(*                                                                            *)
(* KSpec - one executed input case per line (stream / direct / combine /      *)
(*   tiny): the executed schedule must equal the generated one, the block     *)
(*   decomposition must equal BlockLens, and every value flag must be TRUE.   *)
EXTENDS HashWriter, Json, IOUtils

CONSTANTS TailLen, SmallBuf

Trace == ndJsonDeserialize(IOEnv.TRACE_FILE)

VARIABLES l, inCall, hin, seen
tvars == <<nb, tail, pc, call, active, next, pending, sendIdx, buf, wg, chan, wst, cur, hashed, flushed, closed,
           l, inCall, hin, seen>>

\* ================================================================== PSpec
HWInit == TLCSet(7, 0)
PInit0 == /\ nb = 0 /\ tail = FALSE
          /\ pc = "idle" /\ call = "none" /\ active = 0 /\ next = 1 /\ pending = FALSE /\ sendIdx = 1
          /\ buf = [b \in Bufs |-> 0] /\ wg = [b \in Bufs |-> 0]
          /\ chan = [w \in Workers |-> <<>>]
          /\ wst = [w \in Workers |-> "idle"] /\ cur = [w \in Workers |-> NoBlk]
          /\ hashed = [w \in Workers |-> <<>>]
          /\ flushed = TRUE /\ closed = TRUE        \* "previous run finished"
          /\ l = 1 /\ inCall = FALSE /\ hin = [w \in Workers |-> FALSE] /\ seen = {} /\ HWInit

E == Trace[l]
Consume == l' = l + 1
Keep == UNCHANGED <<l, inCall, hin, seen>>

PReset ==
  /\ E.t = "reset" /\ closed /\ ~inCall /\ E.w = W
  /\ nb' = E.nb /\ tail' = E.tail
  /\ pc' = "idle" /\ call' = "none" /\ active' = 0 /\ next' = 1 /\ pending' = FALSE /\ sendIdx' = 1
  /\ buf' = [b \in Bufs |-> 0] /\ wg' = [b \in Bufs |-> 0]
  /\ chan' = [w \in Workers |-> <<>>]
  /\ wst' = [w \in Workers |-> "idle"] /\ cur' = [w \in Workers |-> NoBlk]
  /\ hashed' = [w \in Workers |-> <<>>]
  /\ flushed' = FALSE /\ closed' = FALSE
  /\ Consume /\ UNCHANGED <<inCall, hin, seen>>

PWCall == /\ E.t = "wcall" /\ ~inCall /\ E.j = next /\ CallWrite
          /\ inCall' = TRUE /\ Consume /\ UNCHANGED <<hin, seen>>
PWRet  == /\ E.t = "wret" /\ inCall /\ pc = "idle" /\ call = "none" /\ E.j = next - 1
          /\ inCall' = FALSE /\ Consume /\ UNCHANGED <<pvars, hin, seen>>
PFCall == /\ E.t = "fcall" /\ ~inCall /\ CallFlush
          /\ inCall' = TRUE /\ Consume /\ UNCHANGED <<hin, seen>>
PFRet  == /\ E.t = "fret" /\ inCall /\ pc = "idle" /\ call = "none" /\ flushed /\ ~closed
          /\ inCall' = FALSE /\ Consume /\ UNCHANGED <<pvars, hin, seen>>
PCCall == /\ E.t = "ccall" /\ ~inCall /\ CallClose
          /\ inCall' = TRUE /\ Consume /\ UNCHANGED <<hin, seen>>
PCRet  == /\ E.t = "cret" /\ inCall /\ pc = "idle" /\ call = "none" /\ closed
          /\ inCall' = FALSE /\ Consume /\ UNCHANGED <<pvars, hin, seen>>

BlockLen(blk) == IF tail /\ blk = nb THEN TailLen ELSE B
PHBegin == /\ E.t = "hbegin" /\ E.w \in Workers
           /\ wst[E.w] = "recvd" /\ ~hin[E.w]
           /\ E.len = BlockLen(cur[E.w].blk)
           /\ hin' = [hin EXCEPT ![E.w] = TRUE]
           /\ Consume /\ UNCHANGED <<pvars, inCall, seen>>
PHEnd ==   /\ E.t = "hend" /\ E.w \in Workers
           /\ hin[E.w] /\ wst[E.w] = "hashed"
           /\ E.blk = hashed[E.w][Len(hashed[E.w])]
           /\ hin' = [hin EXCEPT ![E.w] = FALSE]
           /\ Consume /\ UNCHANGED <<pvars, inCall, seen>>

\* unlogged steps; Hash inside the double's bracket, Done after it
PSilent == /\ Keep
           /\ \/ (inCall /\ (Fill \/ Add \/ Send \/ Swap \/ WaitRet \/ FWait0 \/ FWait1 \/ CWait0 \/ CWait1))
              \/ \E w \in Workers : \/ Recv(w)
                                    \/ (hin[w] /\ Hash(w))
                                    \/ (~hin[w] /\ Done(w))

\* every line consumed and the last run is over: report acceptance (once) and stop
PAccept == /\ l = Len(Trace) + 1 /\ closed /\ ~inCall
           /\ PrintT(ToJson([accepted |-> TRUE, lines |-> Len(Trace)]))
           /\ l' = l + 1 /\ UNCHANGED <<pvars, inCall, hin, seen>>

PNext == \/ /\ l <= Len(Trace)
            /\ TLCSet(7, IF TLCGet(7) > l THEN TLCGet(7) ELSE l)
            /\ (PReset \/ PWCall \/ PWRet \/ PFCall \/ PFRet \/ PCCall \/ PCRet \/ PHBegin \/ PHEnd \/ PSilent)
         \/ PAccept

\* diagnostics for a rejected log: the furthest line any path reached
ReportHW == PrintT(ToJson([highwater |-> TLCGet(7), lines |-> Len(Trace)]))

\* ================================================================== KSpec
AllTrue(s) == \A i \in 1..Len(s) : s[i] = TRUE

Ceil(a, b) == (a + b - 1) \div b
RECURSIVE CallsSmall(_)
CallsSmall(s) == IF s = <<>> THEN 0
                 ELSE (IF Head(s) = 0 THEN 1 ELSE Ceil(Head(s), SmallBuf)) + CallsSmall(Tail(s))
\* number of Read calls the scheduled reader must have served
Calls(c) == (IF c.consumer = "exact" THEN Len(c.sizes) ELSE CallsSmall(c.sizes))
            + (IF c.eof = "together" /\ Len(c.sizes) > 0 THEN 0 ELSE 1)

StreamOK(e) ==
  /\ \A i \in 1..Len(e.sizes) : e.sizes[i] \in WriteSizes
  /\ e.eof \in EofStyles /\ e.consumer \in Consumers /\ e.content \in Contents
  /\ e.got = e.sizes                               \* executed schedule = generated schedule
  /\ e.calls = Calls(e)
  /\ IF e.eof = "error" THEN e.err /\ e.bytes = -1
     ELSE /\ ~e.err /\ e.bytes = SumSeq(e.sizes)
          /\ e.md5 /\ e.crc32 /\ e.crc32c /\ e.crc64nvme /\ e.sha1 /\ e.sha256

DirectOK(e) ==
  /\ \A i \in 1..Len(e.sizes) : e.sizes[i] \in WriteSizes
  /\ e.written = SumSeq(e.sizes)
  /\ Len(e.blocks) = 6
  /\ \A w \in 1..6 : /\ Len(e.blocks[w]) = NumBlocks(e.written)
                     /\ \A i \in 1..Len(e.blocks[w]) : e.blocks[w][i] = BlockLens(e.written)[i]
  /\ AllTrue(e.inorder) /\ Len(e.inorder) = 6
  /\ e.md5 /\ e.crc32 /\ e.crc32c /\ e.crc64nvme /\ e.sha1 /\ e.sha256

CombineOK(e) ==
  /\ e.lena \in CombineLens /\ e.lenb \in CombineLens /\ e.content \in CombineContents
  /\ e.gota = e.lena /\ e.gotb = e.lenb
  /\ e.crc32 /\ e.crc32c /\ e.crc64nvme

TinyOK(e) ==
  /\ \A i \in 1..Len(e.a) : e.a[i] \in TinyBytes
  /\ \A i \in 1..Len(e.b) : e.b[i] \in TinyBytes
  /\ Len(e.a) <= 3 /\ Len(e.b) <= 3
  /\ e.gota = Len(e.a) /\ e.gotb = Len(e.b)
  /\ e.crc32 /\ e.crc32c /\ e.crc64nvme

\* second operand of e.q * 2^30 + e.d zero bytes; executed length logged as hi * 2^30 + lo
BigOK(e) ==
  /\ e.q \in BigQ /\ e.d \in BigD /\ e.lena \in BigLenA /\ e.content \in BigContents
  /\ e.gota = e.lena
  /\ e.gothi = (IF e.d >= 0 THEN e.q ELSE e.q - 1)
  /\ e.gotlo = (IF e.d >= 0 THEN e.d ELSE BigUnit + e.d)
  /\ (e.q \in Big64Always => e.eval64)
  /\ e.crc32 /\ e.crc32c /\ (e.eval64 => e.crc64nvme)

Verdict(e) ==
  CASE e.kind = "stream"  -> StreamOK(e)
    [] e.kind = "direct"  -> DirectOK(e)
    [] e.kind = "combine" -> CombineOK(e)
    [] e.kind = "tiny"    -> TinyOK(e)
    [] e.kind = "bigcombine" -> BigOK(e)
    [] OTHER -> FALSE

\* coverage classes exercised, accumulated by TLC and printed with the last line
Classes(e) ==
  CASE e.kind = "stream"  -> {<<"size", e.sizes[i]>> : i \in 1..Len(e.sizes)} \cup {<<"eof", e.eof>>, <<"consumer", e.consumer>>,
                              <<"content", e.content>>, <<"nblocks", NumBlocks(SumSeq(e.sizes))>>}
    [] e.kind = "direct"  -> {<<"dsize", e.sizes[i]>> : i \in 1..Len(e.sizes)} \cup {<<"dblocks", NumBlocks(e.written)>>}
    [] e.kind = "combine" -> {<<"lena", e.lena>>, <<"lenb", e.lenb>>, <<"ccontent", e.content>>}
    [] e.kind = "tiny"    -> {<<"tinylen", Len(e.a), Len(e.b)>>}
    [] e.kind = "bigcombine" -> {<<"bigq", e.q>>, <<"bigd", e.d>>} \cup (IF e.eval64 THEN {<<"big64", e.q>>} ELSE {})
    [] OTHER -> {}

\* every class of the enumerated input space (checked against `seen` at the last line)
Required ==
  {<<"size", x>> : x \in WriteSizes} \cup {<<"dsize", x>> : x \in WriteSizes}
  \cup {<<"eof", x>> : x \in EofStyles} \cup {<<"consumer", x>> : x \in Consumers} \cup {<<"content", x>> : x \in Contents}
  \cup {<<"nblocks", n>> : n \in 0..5} \cup {<<"dblocks", n>> : n \in 0..5}
  \cup {<<"lena", n>> : n \in CombineLens} \cup {<<"lenb", n>> : n \in CombineLens}
  \cup {<<"ccontent", x>> : x \in CombineContents}
  \cup {<<"tinylen", a, b>> : a \in 0..3, b \in 0..3}
  \cup {<<"bigq", q>> : q \in BigQ} \cup {<<"bigd", d>> : d \in BigD} \cup {<<"big64", q>> : q \in Big64Always}

KInit == PInit0
KNext == /\ l <= Len(Trace)
         /\ LET e == Trace[l]
                v == Verdict(e) IN
            /\ IF v THEN TRUE ELSE PrintT(ToJson([l |-> l, verdict |-> "mismatch", id |-> e.id, kind |-> e.kind]))
            /\ seen' = seen \cup Classes(e)
            /\ IF l = Len(Trace) THEN PrintT(ToJson([covered |-> Cardinality(seen'), required |-> Cardinality(Required), missing |-> Required \ seen'])) ELSE TRUE
         /\ l' = l + 1
         /\ UNCHANGED <<pvars, inCall, hin>>
=============================================================================
