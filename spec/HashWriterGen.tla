---------------------------- MODULE HashWriterGen ----------------------------
(* GEN for C35.                                                               *)
(*  GSpec: every order in which the W workers can perform their Hash steps    *)
(*         (protocol schedules for the gated replay of harness/cmd/hashwriter)*)
(*  CSpec: the enumerated input space, one case per initial state:            *)
(*         Kind = "stream"  write-size / reader-chunking schedules            *)
(*         Kind = "combine" (lenA, lenB, content) for the CRC combine         *)
(*         Kind = "all" additionally: "bigcombine" second operands >= 2^31  *)
(*         Kind = "tiny"    all pairs of byte strings of length <= 3 over     *)
(*                          TinyBytes for the CRC combine                     *)
EXTENDS HashWriter, Json

CONSTANTS Kind, MaxLen, MaxTotal

VARIABLES hist, case
gvars == <<nb, tail, pc, call, active, next, pending, sendIdx, buf, wg, chan, wst, cur, hashed, flushed, closed, hist, case>>

\* ------------------------------------------------------ protocol schedules
GInit == Init /\ hist = <<>> /\ case = "none"
GNext == /\ ~closed
         /\ UNCHANGED case
         /\ \/ (Dispatcher /\ UNCHANGED hist)
            \/ \E w \in Workers : \/ (Recv(w) /\ UNCHANGED hist)
                                  \/ (Hash(w) /\ hist' = Append(hist, w))
                                  \/ (Done(w) /\ UNCHANGED hist)
GSpec == GInit /\ [][GNext]_gvars
EmitSchedule == IF closed THEN PrintT(ToJson([kind |-> "proto", w |-> W, nb |-> nb, tail |-> tail, order |-> hist]))
                ELSE TRUE

\* ------------------------------------------------------------ input cases
SizeSeqs == {s \in UNION {[1..n -> WriteSizes] : n \in 0..MaxLen} : SumSeq(s) <= MaxTotal}
StreamCases == [kind : {"stream"}, sizes : SizeSeqs, eof : EofStyles, consumer : Consumers, content : Contents]
CombineCases == [kind : {"combine"}, lena : CombineLens, lenb : CombineLens, content : CombineContents]
BigCases == [kind : {"bigcombine"}, q : BigQ, d : BigD, lena : BigLenA, content : BigContents]
TinyStrings == UNION {[1..n -> TinyBytes] : n \in 0..3}
TinyCases == [kind : {"tiny"}, a : TinyStrings, b : TinyStrings]

Cases == CASE Kind = "stream" -> StreamCases [] Kind = "combine" -> CombineCases [] OTHER -> TinyCases

\* Kind = "all": the three case spaces as three groups of initial states (one TLC run)
CInit == /\ InitWith(0, FALSE) /\ hist = <<>>
         /\ IF Kind = "all" THEN (case \in StreamCases \/ case \in CombineCases \/ case \in TinyCases \/ case \in BigCases)
            ELSE case \in Cases
CNext == UNCHANGED gvars
CSpec == CInit /\ [][CNext]_gvars
EmitCase == PrintT(ToJson(case))
=============================================================================
