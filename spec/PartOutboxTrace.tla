-------------------------- MODULE PartOutboxTrace --------------------------
(* TV for C18.  Two legs, both recorded by harness/cmd/partoutbox:          *)
(*                                                                          *)
(* FORCED leg (TInit/TNext).  A schedule generated from PartOutboxGen is    *)
(* forced onto two real outboxPartStore instances (one sqlite file, one     *)
(* shared inner filesystem store) through verifhook gates and a gating      *)
(* inner-store decorator; exactly one real thread runs at a time, so every  *)
(* line is one step of PartOutbox.tla, logged with its observed result and  *)
(* the projected state AFTER the step (the part_outbox_entries /            *)
(* part_outbox_contents tables and the inner store).  Every line must be    *)
(* explained by the corresponding action of the model of the code           *)
(* (Deviations = open findings); a line that is not explained stops the     *)
(* validation there (=> mismatch => VIOLATION).  The C18 invariants are     *)
(* evaluated in every state; a state that breaks one is printed by Flag     *)
(* together with `stale` (the deviation branch taken) for classification.   *)
(* Time: the driver logs with every claim whether the oldest entry's        *)
(* claim_until was certainly in the future / certainly in the past while    *)
(* the claim ran; only when neither is certain may a claim that contradicts *)
(* the model's lease flag be explained by a silent lease expiry.            *)
(*                                                                          *)
(* STRESS leg (SInit/SNext).  Real Start()ed workers, real heartbeats,      *)
(* random stalls, concurrent clients and readers.  Logged: commit begin     *)
(* (tx.sqlcommit, under the SQLite writer lock => true commit order) and    *)
(* commit end of every client transaction, Invoke/Return of every read,     *)
(* lost-lease observations, and the quiescent final state.  Validated: the  *)
(* reads against the committed values of their interval (ReadOK) and        *)
(* IdleImpliesInnerExact on the final state.  Worker steps are not part of  *)
(* this leg's conformance.                                                  *)
EXTENDS PartOutbox, Json, IOUtils

Trace == ndJsonDeserialize(IOEnv.TRACE_FILE)

VARIABLES l,        \* next line
          ssnaps,   \* stress: the committed map after each begun commit (ssnaps[1] = initial)
          svis,     \* stress: index into ssnaps of the last commit known to have finished
          srd,      \* stress: reader -> [win, ok]
          slost     \* stress: a lost lease was observed
tvars == <<vars, l, ssnaps, svis, srd, slost>>

Ev == Trace[l]
OpsOf(e) == [i \in 1..Len(e.ops) |-> [op |-> e.ops[i].op, part |-> e.ops[i].part, content |-> e.ops[i].content]]

\* ---------------------------------------------------------------- forced leg
Proj(es) == [i \in 1..Len(es) |-> [id |-> es[i].id, part |-> es[i].part, op |-> es[i].op,
                                    content |-> es[i].content, owner |-> es[i].owner, ver |-> es[i].ver]]
Logged(st) == [i \in 1..Len(st.entries) |-> [id |-> st.entries[i].id, part |-> st.entries[i].part, op |-> st.entries[i].op,
                                              content |-> st.entries[i].content, owner |-> st.entries[i].owner,
                                              ver |-> st.entries[i].ver]]
StateMatches == /\ Proj(entries') = Logged(Ev.st)
                /\ \A p \in Parts : inner'[p] = Ev.st.inner[p]

SFrame == UNCHANGED <<ssnaps, svis, srd, slost>>

TReset == /\ Ev.t = "reset"
          /\ entries' = <<>> /\ nextId' = 1
          /\ committed' = [p \in Parts |-> NoC] /\ inner' = [p \in Parts |-> NoC]
          /\ pc' = [w \in Workers |-> "idle"] /\ held' = [w \in Workers |-> NoHeld]
          /\ inc' = [w \in Workers |-> 0] /\ rd' = IdleRd /\ stale' = FALSE
          /\ cnt' = [crash |-> 0, hb |-> 0, reads |-> 0]

TTx == /\ Ev.t = "tx" /\ Commit(OpsOf(Ev), Ev.ok) /\ StateMatches

\* Ev.lease: what the driver measured about the oldest entry's claim_until against the clock while the claim ran:
\* "valid" (certainly live: a silent expiry cannot explain a steal), "expired" (certainly over), otherwise unknown
TClaim == /\ Ev.t = "claim"
          /\ LET es == IF Ev.lease = "expired" THEN ExpireAll(entries)
                       ELSE IF Ev.lease = "valid" \/ ClaimResult(entries) = Ev.res THEN entries
                       ELSE ExpireAll(entries) IN
             /\ ClaimResult(es) = Ev.res
             /\ ClaimOn(es, Ev.w)
          /\ Ev.res = "claimed" => (held'[Ev.w].id = Ev.id /\ held'[Ev.w].part = Ev.part /\ held'[Ev.w].op = Ev.op)
          /\ StateMatches

TRStart == /\ Ev.t = "rstart" /\ ReplayStart(Ev.w)
           /\ (pc'[Ev.w] = "replaying") = Ev.ok
           /\ (Ev.ok /\ held[Ev.w].op = "Put") => held'[Ev.w].content = Ev.content
           /\ StateMatches

TREnd == Ev.t = "rend" /\ ReplayEnd(Ev.w) /\ StateMatches
THb == Ev.t = "hb" /\ Heartbeat(Ev.w) /\ Owns(Ev.w) = Ev.ext /\ StateMatches
TFin == Ev.t = "fin" /\ Finalize(Ev.w) /\ Owns(Ev.w) = Ev.del /\ StateMatches
TRel == Ev.t = "rel" /\ Release(Ev.w) /\ StateMatches
TExpire == /\ Ev.t = "expire" /\ entries' = ExpireAll(entries)
           /\ UNCHANGED <<nextId, committed, inner, pc, held, inc, rd, stale, cnt>> /\ StateMatches
TCrash == Ev.t = "crash" /\ WorkerCrash(Ev.w) /\ StateMatches

TR1 == /\ Ev.t = "r1" /\ Read1(IF Ev.kind = "ids" THEN "ids" ELSE "get", Ev.part)
       /\ (rd'.st = "done") = Ev.done
       /\ Ev.done => rd'.res[Ev.part] = Ev.val
\* r2: the inner store answered the reader (it is parked at the exit of the inner-store call);
\* r3: the call returned - its result must be what the model fixed at Read2, whatever ran in between
TR2 == Ev.t = "r2" /\ Read2
TR3 == /\ Ev.t = "r3" /\ Read3
       /\ IF rd.kind = "get" THEN rd.res[rd.part] = Ev.val
          ELSE \A p \in Parts : rd.res[p] = Ev.ids[p]

\* atomic observations through every instance, with and without a transaction
TObs == /\ Ev.t = "obs"
        /\ \A i \in 1..Len(Ev.views) : \A p \in Parts :
              /\ Ev.views[i].get[p] = View(p)
              /\ Ev.views[i].gettx[p] = View(p)
              /\ (Ev.views[i].ids[p] = "in") = (p \in ViewIds)
        /\ UNCHANGED vars

TNext == /\ l <= Len(Trace)
         /\ l' = l + 1
         /\ SFrame
         /\ (TReset \/ TTx \/ TClaim \/ TRStart \/ TREnd \/ THb \/ TFin \/ TRel \/ TExpire \/ TCrash \/ TR1 \/ TR2 \/ TR3 \/ TObs)

TInit == /\ Init /\ l = 1
         /\ ssnaps = <<>> /\ svis = 1 /\ srd = <<>> /\ slost = FALSE

\* property evaluation on every state of the validated behaviour (never stops the validation)
Flag == IF IdleImpliesInnerExact /\ QuiescentReadsExact /\ rd.ok THEN TRUE
        ELSE PrintT(ToJson([l |-> l - 1, idle |-> IdleImpliesInnerExact, quiet |-> QuiescentReadsExact,
                            read |-> rd.ok, stale |-> stale]))

\* ---------------------------------------------------------------- stress leg
Readers == {"r1", "r2", "final"}
NoSrd == [win |-> [p \in Parts |-> {}], ok |-> TRUE]
WFrame == UNCHANGED <<entries, nextId, inner, pc, held, inc, rd, stale, cnt>>

Snap0 == [cm |-> [p \in Parts |-> NoC], tv |-> [p \in Parts |-> {}]]
SInit == /\ Init /\ l = 1
         /\ ssnaps = <<Snap0>> /\ svis = 1 /\ srd = [r \in Readers |-> NoSrd] /\ slost = FALSE

SReset == /\ Ev.t = "sreset"
          /\ committed' = [p \in Parts |-> NoC] /\ ssnaps' = <<Snap0>> /\ svis' = 1
          /\ srd' = [r \in Readers |-> NoSrd] /\ slost' = FALSE

\* commit begin: logged at tx.sqlcommit while the SQLite writer lock is held => the k-th cbeg is the k-th commit;
\* it becomes visible to readers at some point before its cend (tx.committed) is logged
SCBeg == /\ Ev.t = "cbeg" /\ Ev.k = Len(ssnaps)
         /\ committed' = ApplyOps(committed, OpsOf(Ev))
         /\ ssnaps' = Append(ssnaps, [cm |-> ApplyOps(committed, OpsOf(Ev)), tv |-> [p \in Parts |-> Touched(OpsOf(Ev), p)]])
         /\ srd' = [r \in Readers |-> [srd[r] EXCEPT !.win = [p \in Parts |-> srd[r].win[p] \cup Touched(OpsOf(Ev), p)]]]
         /\ UNCHANGED <<svis, slost>>
SCEnd == /\ Ev.t = "cend" /\ Ev.k < Len(ssnaps)
         /\ svis' = IF Ev.k + 1 > svis THEN Ev.k + 1 ELSE svis
         /\ UNCHANGED <<committed, ssnaps, srd, slost>>
\* a read may see any state from the last commit known to be finished up to the last commit begun
SRInv == /\ Ev.t = "rinv"
         /\ srd' = [srd EXCEPT ![Ev.r] = [win |-> [p \in Parts |-> UNION {{ssnaps[i].cm[p]} \cup ssnaps[i].tv[p] : i \in svis..Len(ssnaps)}], ok |-> TRUE]]
         /\ UNCHANGED <<committed, ssnaps, svis, slost>>
SRRet == /\ Ev.t = "rret"
         /\ srd' = [srd EXCEPT ![Ev.r].ok =
                      ReadOK(IF Ev.kind = "ids" THEN "ids" ELSE "get", Ev.part,
                             IF Ev.kind = "ids" THEN [p \in Parts |-> Ev.ids[p]] ELSE [p \in Parts |-> Ev.val],
                             srd[Ev.r].win)]
         /\ UNCHANGED <<committed, ssnaps, svis, slost>>
SLost == Ev.t = "lost" /\ slost' = TRUE /\ UNCHANGED <<committed, ssnaps, svis, srd>>
\* quiescent end: no entries left, both workers stopped; what the inner store and the reads show
FinalOK(e) == /\ \A p \in Parts : e.inner[p] = committed[p]
              /\ \A i \in 1..Len(e.views) : \A p \in Parts :
                    /\ e.views[i].get[p] = committed[p] /\ e.views[i].gettx[p] = committed[p]
                    /\ (e.views[i].ids[p] = "in") = (committed[p] # NoC)
SFinal == /\ Ev.t = "final" /\ Ev.pending = 0
          /\ srd' = [srd EXCEPT !["final"].ok = FinalOK(Ev)]
          /\ UNCHANGED <<committed, ssnaps, svis, slost>>

SNext == /\ l <= Len(Trace)
         /\ l' = l + 1
         /\ WFrame
         /\ (SReset \/ SCBeg \/ SCEnd \/ SRInv \/ SRRet \/ SLost \/ SFinal)

SFlag == IF \A r \in Readers : srd[r].ok THEN TRUE
         ELSE PrintT(ToJson([l |-> l - 1, bad |-> {r \in Readers : ~srd[r].ok}, lost |-> slost]))
=============================================================================
