------------------------------ MODULE CacheWit ------------------------------
(* Witness search: Cache.tla (model of the code, Deviations = one open tag)   *)
(* plus the variable `last` = the schedule step just taken.  States merge     *)
(* (no history), so TLC's BFS finds the SHORTEST behaviour that breaks an      *)
(* invariant quickly; the counterexample (dumped as JSON) is read back as a    *)
(* schedule for the forced-schedule leg - a candidate that only counts if the  *)
(* real code reproduces it.                                                    *)
EXTENDS Cache

VARIABLE last
wvars == <<S, last>>

StepRec(t, b, o) == [th |-> t, begin |-> b, kind |-> o.kind, k |-> o.k, v |-> o.v]
WInit == Init /\ last = [th |-> "", begin |-> 0, kind |-> "", k |-> "", v |-> ""]
WNext == \E t \in Threads :
           \/ \E S2 \in StepSet(S, t) : S' = S2 /\ last' = StepRec(t, 0, S.op[t])
           \/ S.nops[t] < MaxOps /\ \E o \in Ops : \E S2 \in BeginSet(S, t, o) : S' = S2 /\ last' = StepRec(t, 1, o)
WSpec == WInit /\ [][WNext]_wvars
=============================================================================
