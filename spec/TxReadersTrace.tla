--------------------------- MODULE TxReadersTrace ---------------------------
(* TV: the ndjson log of harness/cmd/txreaders.  Programs are concatenated;   *)
(* every program is                                                           *)
(*   reset  (the WithTxReadClosers / GetObject call: k, mode, fnerr, ranges,  *)
(*           rollbacks and pool connections in use right after the call)      *)
(*   step*  (one call on a returned reader: act, i, bytes n, error class,     *)
(*           content ok, rollbacks so far, connections in use)                *)
(*   end    (rollbacks, connections in use, fresh read tx / write tx usable)  *)
(* plus "conc" lines (k goroutines read and close their reader concurrently). *)
(* Every line is consumed by exactly one step.  The logged observation must   *)
(* equal what TxReaders predicts with the known deviations enabled            *)
(* ("mismatch" = new behaviour); the property operators of TxReaders are      *)
(* evaluated on every reached state ("finding", attributed to devTaken).      *)
EXTENDS TxReaders, Json, IOUtils

Trace == ndJsonDeserialize(IOEnv.TRACE_FILE)

VARIABLES l,        \* next line
          skip,     \* the current program already mismatched: consume without judging
          told      \* a finding was already printed for the current program
tvars == <<k, mode, fnerr, st, pos, closes, failed, remaining, tx, rollbacks, res, devTaken, l, skip, told>>

InUse == IF tx = "open" THEN 1 ELSE 0
PoolOK(e) == e.inuse = -1 \/ e.inuse = InUse
\* the same on the successor state (do not write PoolOKP(e): that would also prime l inside e)
PoolOKP(e) == e.inuse = -1 \/ e.inuse = (IF tx' = "open" THEN 1 ELSE 0)

Say(verdict, e, detail) ==
  PrintT(ToJson([l |-> l, verdict |-> verdict, prog |-> e.prog, tags |-> devTaken', detail |-> detail,
                 model |-> [res |-> res', tx |-> tx', rollbacks |-> rollbacks', remaining |-> remaining', st |-> st']]))

Judge(e) ==
  /\ IF PropOK' \/ told THEN told' = told
     ELSE /\ told' = TRUE
          /\ Say("finding", e, [exactlyOnce |-> ExactlyOnce', notEarly |-> NotEarly',
                                released |-> Released', readsOK |-> ReadsOK'])

\* InitWith on the primed variables
InitWithP(kk, m, fe) ==
  /\ k' = kk /\ mode' = m /\ fnerr' = fe
  /\ st' = [i \in Readers |-> IF i <= kk /\ ~fe THEN "open" ELSE "absent"]
  /\ pos' = [i \in Readers |-> 0]
  /\ closes' = [i \in Readers |-> 0]
  /\ failed' = [i \in Readers |-> FALSE]
  /\ remaining' = IF fe THEN 0 ELSE kk
  /\ tx' = IF fe \/ kk = 0 THEN "rolledback" ELSE "open"
  /\ rollbacks' = IF fe \/ kk = 0 THEN 1 ELSE 0
  /\ res' = NoRes
  /\ devTaken' = {}

TInit == InitWith(0, "direct", FALSE) /\ l = 1 /\ skip = TRUE /\ told = FALSE

TReset ==
  LET e == Trace[l] IN
  /\ e.t = "reset"
  /\ InitWithP(e.k, e.mode, e.fnerr)
  /\ LET good == /\ e.k \in 0..MaxK /\ e.mode \in {"storage", "direct"}
                 /\ Len(e.ranges) = e.k
                 /\ \A i \in 1..e.k : e.ranges[i][1] = RStart(i) /\ e.ranges[i][2] = REnd(i)
                 /\ e.stepbytes = StepBytes
                 /\ e.partsize = PartSize /\ e.nparts = NParts
                 /\ e.rb = rollbacks' /\ PoolOKP(e)
                 /\ e.openerr = (IF e.fnerr THEN "err" ELSE "none")
     IN /\ skip' = ~good
        /\ IF good THEN TRUE ELSE Say("mismatch", e, "reset")
  /\ told' = FALSE

Do(act, i) ==
  CASE act = "Read"           -> DoRead("Read", i, StepBytes)
    [] act = "ReadToEnd"      -> DoRead("ReadToEnd", i, RLen(i) + 1)
    [] act = "ReadAfterClose" -> DoRead("ReadAfterClose", i, StepBytes)
    [] act = "Close"          -> Close(i)
    [] act = "ConcClose"      -> ConcClose(i)

TStep ==
  LET e == Trace[l] IN
  /\ e.t = "step" /\ ~skip
  /\ e.act \in {"Read", "ReadToEnd", "ReadAfterClose", "Close", "ConcClose"}
  /\ Do(e.act, e.i)
  /\ LET good == /\ res'.any \/ (e.n = res'.n /\ e.err = res'.err /\ e.ok)
                 /\ e.act = "ConcClose" => e.err2 = res'.err     \* both concurrent calls report the same outcome
                 /\ e.rb = rollbacks' /\ PoolOKP(e)
     IN /\ skip' = ~good
        /\ IF good THEN Judge(e) ELSE told' = told /\ Say("mismatch", e, "step")

TEnd ==
  LET e == Trace[l] IN
  /\ e.t = "end" /\ ~skip
  /\ UNCHANGED vars
  /\ LET good == e.rb = rollbacks /\ PoolOK(e) /\ e.fresh_read /\ e.fresh_write /\ AllClosed
     IN /\ skip' = ~good
        /\ IF good THEN Judge(e) ELSE told' = told /\ Say("mismatch", e, "end")

\* k goroutines each read their reader to the end and close it, concurrently:
\* whatever the interleaving, the reached state is "all closed"; the logged
\* observations are put into that state and judged by the property operators
TConc ==
  LET e == Trace[l] IN
  /\ e.t = "conc"
  /\ k' = e.k /\ mode' = "direct" /\ fnerr' = FALSE
  /\ st' = [i \in Readers |-> IF i <= e.k THEN "closed" ELSE "absent"]
  /\ pos' = [i \in Readers |-> IF i <= e.k THEN RLen(i) ELSE 0]
  /\ closes' = [i \in Readers |-> IF i <= e.k THEN 1 ELSE 0]
  /\ failed' = [i \in Readers |-> FALSE]
  /\ remaining' = 0
  /\ rollbacks' = e.rb
  /\ tx' = IF e.inuse = 0 THEN "rolledback" ELSE "open"
  /\ res' = [act |-> "ReadToEnd", i |-> 0, n |-> 0, err |-> IF e.reads_ok = e.k THEN "eof" ELSE "txdone",
             judged |-> TRUE, any |-> FALSE]
  /\ devTaken' = {}
  /\ skip' = TRUE
  /\ told' = told
  /\ IF PropOK' THEN TRUE ELSE Say("mismatch", e, "conc")

TSkip ==
  /\ Trace[l].t \in {"step", "end"} /\ skip
  /\ UNCHANGED <<vars, skip, told>>

TNext == /\ l <= Len(Trace)
         /\ l' = l + 1
         /\ (TReset \/ TStep \/ TEnd \/ TConc \/ TSkip)
=============================================================================
