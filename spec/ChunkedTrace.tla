---------------------------- MODULE ChunkedTrace ----------------------------
(* TV: one executed case per ndjson line: case fields + observed ok/stored  *)
EXTENDS Chunked, Json, IOUtils
Trace == ndJsonDeserialize(IOEnv.TRACE_FILE)
VARIABLES l, seen
CaseOf(r) == [chunks |-> r.chunks, mode |-> r.mode, algo |-> r.algo, tstyle |-> r.tstyle,
              mut |-> r.mut, at |-> r.at, auth |-> r.auth, op |-> r.op, prev |-> r.prev, scale |-> r.scale]
Got(r) == [ok |-> r.ok, stored |-> [kind |-> r.stored_kind, units |-> r.stored_units]]
Verdict(r) ==
  LET c == CaseOf(r) IN
  IF ~Valid(c) THEN "malformed"
  ELSE IF Got(r) # Result(c) THEN "mismatch"
  ELSE IF ~C30Holds(c, Got(r)) THEN "finding"
  ELSE "ok"
TagOf(c) == LET t == DevTaken(c) IN IF t = {} THEN "" ELSE CHOOSE x \in t : TRUE
Report(i) ==
  LET r == Trace[i]
      v == Verdict(r) IN
  IF v = "ok" THEN TRUE
  ELSE IF v = "malformed" THEN PrintT(ToJson([l |-> i, verdict |-> v, tag |-> ""]))
  ELSE PrintT(ToJson([l |-> i, verdict |-> v,
                      tag |-> IF v = "finding" THEN TagOf(CaseOf(r)) ELSE "",
                      expected |-> Result(CaseOf(r)), got |-> Got(r)]))
TInit == l = 1 /\ seen = {} /\ case = 0 /\ wire = <<>> /\ srv = 0
\* seen: decoder states / error kinds the model went through on the executed cases
TNext == /\ l <= Len(Trace)
         /\ Report(l)
         /\ l' = l + 1
         /\ seen' = seen \cup (IF Valid(CaseOf(Trace[l])) THEN TrailOf(CaseOf(Trace[l])) ELSE {})
         /\ (IF l = Len(Trace) THEN PrintT(ToJson([coverage |-> seen'])) ELSE TRUE)
         /\ UNCHANGED vars
=============================================================================
