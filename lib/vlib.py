"""Shared runner library for /verif checks.

One check = bin/check <Cxx> <quick|thorough>.  A module pipeline (modules/<name>.py)
receives a Ctx and uses:
  ctx.gobuild(cmd)                 build harness/cmd/<cmd> from /repo's working tree, -tags verif
  ctx.run(argv, ...)               run a driver; non-zero exit => Infra (exit 2), never a verdict
  ctx.tlc(module, cfg, ...)        run TLC in a scratch copy of spec/, parse the outcome
  ctx.validate_cases(...)          generic "one case per ndjson line" trace validation
  ctx.finding(tag, witness)        KNOWN-FINDING if tag is an open entry of known_findings.json,
                                   VIOLATION otherwise
  ctx.violation(replay, msg)       VIOLATION line, exit 1
  ctx.finish()                     writes evidence/<id>.json, returns exit code
Exit codes: 0 held / only listed findings, 1 violation, 2 infrastructure failure.
"""
import json
import os
import re
import shutil
import subprocess
import sys
import tempfile
import time

VERIF = os.path.dirname(os.path.dirname(os.path.abspath(__file__)))
REPO = os.environ.get("VERIF_REPO", "/repo")
SPEC = os.path.join(VERIF, "spec")
HARNESS = os.path.join(VERIF, "harness")
BUILD = os.path.join(VERIF, "build")
NCPU = os.cpu_count() or 4

GOENV = {
    "GOFLAGS": "-mod=mod",
    "GOPROXY": "off",
    "GOSUMDB": "off",
    "GOTOOLCHAIN": "local",
}
GO = "go1.27.0"


class Infra(Exception):
    """Infrastructure failure: never a verdict (exit 2)."""


class TLCResult:
    def __init__(self):
        self.outcome = "unknown"  # ok | invariant | property | postcondition | deadlock | error | timeout
        self.violated = None
        self.generated = 0
        self.distinct = 0
        self.depth = 0
        self.output = ""
        self.wall = 0.0
        self.printed = []  # values printed with PrintT(ToJson(..)) decoded
        self.coverage = {}  # action -> (distinct, total)
        self.cex = ""

    def ok(self):
        return self.outcome == "ok"


def _decode_printed(line):
    # PrintT(ToJson(x)) prints a TLA+ string: "...." with \" and \\ escapes.
    line = line.strip()
    if len(line) >= 2 and line[0] == '"' and line[-1] == '"':
        inner = line[1:-1]
        try:
            s = json.loads('"' + inner + '"')
            return json.loads(s)
        except Exception:
            return None
    return None


def parse_tlc_output(out, res):
    res.output = out
    m = None
    for m in re.finditer(r"(\d+) states generated, (\d+) distinct states found", out):
        pass
    if m:
        res.generated = int(m.group(1))
        res.distinct = int(m.group(2))
    m = re.search(r"The depth of the complete state graph search is (\d+)", out)
    if m:
        res.depth = int(m.group(1))
    # simulation mode statistics
    m = re.search(r"The number of states generated: (\d+)", out)
    if m and res.generated == 0:
        res.generated = int(m.group(1))
        res.distinct = res.generated
    if "Model checking completed. No error has been found." in out or \
            ("Simulation" in out and "Error" not in out and "Finished in" in out):
        res.outcome = "ok"
    m = re.search(r"Error: Invariant (\S+) is violated", out)
    if m:
        res.outcome, res.violated = "invariant", m.group(1)
    m = re.search(r"Error: Action property (\S+) is violated", out)
    if m:
        res.outcome, res.violated = "property", m.group(1)
    if "Temporal properties were violated" in out:
        res.outcome, res.violated = "property", "temporal"
    if "Deadlock reached" in out:
        res.outcome = "deadlock"
    m = re.search(r"Error: Postcondition (\S+)? ?.*violated|postcondition.*(false|violated)", out, re.I)
    if m and res.outcome in ("ok", "unknown"):
        res.outcome = "postcondition"
    if res.outcome in ("unknown",) and "Error:" in out:
        res.outcome = "error"
    if res.outcome == "ok" and re.search(r"^Error: ", out, re.M):
        res.outcome = "error"
    i = out.find("Error: The behavior up to this point is")
    if i >= 0:
        res.cex = out[i:i + 20000]
    for line in out.splitlines():
        if line.startswith('"{') or line.startswith('"['):
            v = _decode_printed(line)
            if v is not None:
                res.printed.append(v)
    # coverage: lines like "<Action line .. of module M>: 12:345"
    for m in re.finditer(r"^<(\w+) line \d+, col \d+ to line \d+, col \d+ of module (\w+)>: (\d+):(\d+)", out, re.M):
        name = m.group(1)
        d, t = int(m.group(3)), int(m.group(4))
        od, ot = res.coverage.get(name, (0, 0))
        res.coverage[name] = (max(od, d), max(ot, t))
    return res


class Ctx:
    def __init__(self, prop, tier, seed):
        self.prop = prop
        self.tier = tier
        self.seed = seed
        self.t0 = time.time()
        base = os.environ.get("VERIF_TMP", "/var/tmp")
        os.makedirs(base, exist_ok=True)
        self.tmp = tempfile.mkdtemp(prefix="verif-%s-" % prop, dir=base)
        self.keep_tmp = bool(os.environ.get("VERIF_KEEP_TMP"))
        self.states = 0
        self.transitions = 0
        self.traces = 0
        self.events = 0
        self.evaluations = 0
        self.samples = []
        self.extra = {}
        self.assumptions = []
        self.violations = 0
        self.findings_seen = {}
        self.mc_runs = []
        self.level = "model_checking"
        self._kf = None
        self._nreplay = 0

    # ------------------------------------------------------------------ util
    def log(self, *a):
        print("[%s %s %6.1fs]" % (self.prop, self.tier, time.time() - self.t0), *a, flush=True)

    def path(self, *p):
        return os.path.join(self.tmp, *p)

    def quick(self):
        return self.tier == "quick"

    def pick(self, quick, thorough):
        return quick if self.tier == "quick" else thorough

    def sample(self, x, cap=6):
        if len(self.samples) < cap:
            self.samples.append(x)

    # ------------------------------------------------------------------ go
    def gobuild(self, cmd, race=False):
        """Build harness/cmd/<cmd> with -tags verif against REPO's current working tree.
        With VERIF_REPO=<scratch copy> (mutation testing) a private copy of the harness is built
        against that tree and the binary stays inside the run's tmp dir."""
        env = dict(os.environ)
        env.update(GOENV)
        harness, build = HARNESS, BUILD
        if os.path.realpath(REPO) != "/repo":
            harness, build = self.path("harness"), self.path("build")
            if not os.path.isdir(harness):
                shutil.copytree(HARNESS, harness)
                gm = open(os.path.join(harness, "go.mod")).read()
                gm = gm.replace("=> /repo", "=> " + os.path.realpath(REPO))
                open(os.path.join(harness, "go.mod"), "w").write(gm)
        os.makedirs(build, exist_ok=True)
        out = os.path.join(build, cmd + ("-race" if race else ""))
        argv = [GO, "build", "-tags", "verif"]
        if race:
            argv.append("-race")
        argv += ["-o", out, "./cmd/" + cmd]
        t = time.time()
        try:
            shutil.copyfile(os.path.join(REPO, "go.sum"), os.path.join(harness, "go.sum"))
        except OSError:
            pass
        p = subprocess.run(argv, cwd=harness, env=env, stdout=subprocess.PIPE, stderr=subprocess.STDOUT, text=True)
        if p.returncode != 0:
            raise Infra("go build %s failed:\n%s" % (cmd, p.stdout[-4000:]))
        self.log("built %s in %.1fs" % (cmd, time.time() - t))
        return out

    def run(self, argv, timeout=600, env=None, check=True, cwd=None):
        e = dict(os.environ)
        e["VERIF_SEED"] = str(self.seed)
        e["VERIF_TIER"] = self.tier
        if env:
            e.update(env)
        try:
            p = subprocess.run(argv, cwd=cwd or self.tmp, env=e, stdout=subprocess.PIPE, stderr=subprocess.STDOUT,
                               text=True, timeout=timeout, errors="replace")
        except subprocess.TimeoutExpired:
            raise Infra("driver timed out after %ss: %s" % (timeout, " ".join(argv[:3])))
        if check and p.returncode != 0:
            raise Infra("driver failed (exit %d): %s\n%s" % (p.returncode, " ".join(argv[:4]), p.stdout[-6000:]))
        return p

    # ------------------------------------------------------------------ tlc
    def _specdir(self):
        d = self.path("spec")
        if not os.path.isdir(d):
            os.makedirs(d)
            for f in os.listdir(SPEC):
                if f.endswith(".tla"):
                    shutil.copyfile(os.path.join(SPEC, f), os.path.join(d, f))
            cfgd = os.path.join(SPEC, "cfg")
            if os.path.isdir(cfgd):
                for f in os.listdir(cfgd):
                    shutil.copyfile(os.path.join(cfgd, f), os.path.join(d, f))
        return d

    def tlc(self, module, cfg, workers=None, timeout=600, env=None, simulate=None, depth=None,
            coverage=False, dfs=False, seed=None, deadlock=None, extra=None, count_mc=True, xss=None,
            subst=None):
        """Run TLC on spec/<module>.tla with spec/cfg/<cfg>.  simulate = "num=N" (per worker).
        subst = {constant name: TLA+ value text} rewrites `Name = ...` lines of the cfg."""
        d = self._specdir()
        if subst:
            txt = open(os.path.join(d, cfg)).read()
            for k, v in subst.items():
                txt, n = re.subn(r"(?m)^(\s*(?:CONSTANTS?\s+)?)%s\s*=[^\n]*$" % re.escape(k),
                                 lambda m: "%s%s = %s" % (m.group(1), k, v), txt)
                if n == 0:
                    txt += "\nCONSTANT %s = %s\n" % (k, v)
            self._ncfg = getattr(self, "_ncfg", 0) + 1
            cfg = "gen%d.%s" % (self._ncfg, cfg)
            open(os.path.join(d, cfg), "w").write(txt)
        md = tempfile.mkdtemp(prefix="md-", dir=self.tmp)
        argv = ["java", "-XX:+UseParallelGC"]
        if xss:
            argv.append("-Xss" + xss)
        if dfs:
            argv.append("-Dtlc2.tool.queue.IStateQueue=StateDeque")
        argv += ["-cp", "/opt/veriftools/tla/tla2tools.jar:/opt/veriftools/tla/CommunityModules-deps.jar", "tlc2.TLC"]
        argv += ["-workers", str(workers or NCPU), "-metadir", md, "-config", cfg, "-nowarning"]
        if simulate:
            argv += ["-simulate", simulate]
            if depth:
                argv += ["-depth", str(depth)]
        if seed is not None:
            argv += ["-seed", str(seed)]
        if coverage:
            argv += ["-coverage", "1"]
        if deadlock is False:
            argv += ["-deadlock"]
        if extra:
            argv += extra
        argv.append(module + ".tla")
        e = dict(os.environ)
        if env:
            e.update({k: str(v) for k, v in env.items()})
        res = TLCResult()
        t = time.time()
        try:
            p = subprocess.run(argv, cwd=d, env=e, stdout=subprocess.PIPE, stderr=subprocess.STDOUT, text=True,
                               timeout=timeout, errors="replace")
            out = p.stdout
        except subprocess.TimeoutExpired as ex:
            out = ex.stdout or ""
            if isinstance(out, bytes):
                out = out.decode("utf-8", "replace")
            parse_tlc_output(out, res)
            res.outcome = "timeout"
            res.wall = time.time() - t
            shutil.rmtree(md, ignore_errors=True)
            return res
        parse_tlc_output(out, res)
        res.wall = time.time() - t
        shutil.rmtree(md, ignore_errors=True)
        if count_mc:
            self.states += res.distinct
            self.transitions += res.generated
            self.mc_runs.append({"module": module, "cfg": cfg, "outcome": res.outcome, "distinct": res.distinct,
                                 "generated": res.generated, "depth": res.depth, "wall_s": round(res.wall, 1),
                                 "mode": "simulate" if simulate else "bfs"})
        return res

    def mc(self, module, cfg, what=None, **kw):
        """Exhaustive model check that MUST pass on the design; anything else is exit 2."""
        r = self.tlc(module, cfg, **kw)
        self.log("MC %s/%s: %s, %d distinct / %d generated, depth %d, %.1fs" %
                 (module, cfg, r.outcome, r.distinct, r.generated, r.depth, r.wall))
        if not r.ok():
            tail = r.cex or r.output[-3000:]
            raise Infra("model check %s/%s did not pass (%s %s): the design-level spec must satisfy the property\n%s"
                        % (module, cfg, r.outcome, r.violated, tail))
        return r

    # ------------------------------------------------------ case validation
    def validate_cases(self, module, cfg, trace_file, timeout=900, env=None, xss=None, subst=None):
        """Trace validation for modules whose trace is one self-contained case per line.

        The trace spec walks the file with variable l, evaluates the spec's result operator on each
        line and prints (PrintT(ToJson(..))) one record {"l":..,"verdict":..,...} per line that is not
        plainly ok.  Returns (n_lines_consumed, list_of_printed_records).  All lines must be consumed.
        """
        n = sum(1 for _ in open(trace_file))
        if n == 0:
            raise Infra("empty trace " + trace_file)
        e = {"TRACE_FILE": trace_file}
        if env:
            e.update(env)
        r = self.tlc(module, cfg, workers=1, timeout=timeout, env=e, count_mc=False, xss=xss, subst=subst)
        if r.outcome not in ("ok",):
            raise Infra("trace validation %s/%s failed to run to completion: %s %s\n%s" %
                        (module, cfg, r.outcome, r.violated, (r.cex or r.output[-4000:])))
        if r.depth - 1 != n:
            raise Infra("trace validation consumed %d of %d lines\n%s" % (r.depth - 1, n, r.output[-3000:]))
        self.traces += n
        self.events += n
        self.transitions += r.generated
        self.states += r.distinct
        self.log("TV %s/%s: %d cases consumed, %d flagged, %.1fs" % (module, cfg, n, len(r.printed), r.wall))
        return n, r.printed

    # ------------------------------------------------------ findings
    def known_findings(self):
        if self._kf is None:
            self._kf = []
            d = os.path.join(VERIF, "known_findings")
            for f in sorted(os.listdir(d)) if os.path.isdir(d) else []:
                if f.endswith(".json"):
                    self._kf += json.load(open(os.path.join(d, f)))
        return self._kf

    def open_tags(self, prop=None):
        return [f["tag"] for f in self.known_findings()
                if f.get("status") == "open" and (prop is None or f.get("property") == prop)]

    def deviations(self, prefix=None, props=None):
        """TLA+ set text of the open deviation tags, filtered by tag prefix and/or property ids."""
        tags = sorted(set(f["tag"] for f in self.known_findings()
                          if f.get("status") == "open" and (prefix is None or f["tag"].startswith(prefix))
                          and (props is None or f.get("property") in props)))
        return "{" + ", ".join('"%s"' % t for t in tags) + "}"

    def finding(self, tag, witness, replay_src=None, prop=None):
        """A property violation attributed to deviation `tag`.  Listed as open (under whatever
        property the finding belongs to) => KNOWN-FINDING, otherwise VIOLATION."""
        for f in self.known_findings():
            if f.get("status") == "open" and f.get("tag") == tag:
                if tag not in self.findings_seen:
                    self.findings_seen[tag] = 0
                    print("KNOWN-FINDING: property=%s %s %s" % (f.get("property"), tag, f.get("what", "")), flush=True)
                self.findings_seen[tag] += 1
                return True
        self.violation(replay_src, "unlisted deviation %s: %s" % (tag, json.dumps(witness)[:600]), data=witness)
        return False

    def violation(self, replay_src, msg, data=None):
        self.violations += 1
        os.makedirs(os.path.join(VERIF, "replays"), exist_ok=True)
        self._nreplay += 1
        dst = os.path.join(VERIF, "replays", "%s-%s-seed%d-%d.json" % (self.prop, self.tier, self.seed, self._nreplay))
        try:
            if replay_src and os.path.exists(replay_src):
                dst = dst[:-5] + os.path.splitext(replay_src)[1]
                shutil.copyfile(replay_src, dst)
            else:
                json.dump({"property": self.prop, "message": msg, "data": data}, open(dst, "w"), indent=1)
        except OSError:
            pass
        if self.violations <= 5:
            print("VIOLATION property=%s replay=%s" % (self.prop, dst), flush=True)
            print("  detail: " + msg[:2000], flush=True)

    # ------------------------------------------------------ evidence
    def finish(self, rule="", exhaustive=None):
        cov = {
            "states": max(self.states, 0),
            "transitions": max(self.transitions, 0),
            "traces_validated_against_impl": self.traces,
            "samples": self.samples[:8] if self.samples else ["(no sample recorded)"],
            "evaluations": max(self.evaluations, self.events, 1),
            "distinct_nontrivial": self.extra.pop("distinct_nontrivial", 0),
            "rule": rule,
            "events_validated": self.events,
            "model_checking_runs": self.mc_runs,
            "known_findings_hit": self.findings_seen,
        }
        if exhaustive is not None:
            cov["exhaustive"] = exhaustive
        cov.update(self.extra)
        # keys the evidence schema types: anything of another shape is kept under <key>_detail
        _typed = {"evaluations": int, "distinct_nontrivial": int, "rule": str, "samples": list, "states": int, "transitions": int,
                  "traces_validated_against_impl": int, "obligations": int, "discharged": int, "checker_cmd": str,
                  "trusted_base": list, "programs": int, "disagreements_checked": int, "explanation": str, "exhaustive": bool}
        for k, t in _typed.items():
            if k in cov and (not isinstance(cov[k], t) or (t is int and isinstance(cov[k], bool))):
                v = cov.pop(k)
                cov[k + "_detail"] = v
                if t is int and isinstance(v, dict):
                    nums = [x for x in v.values() if isinstance(x, int) and not isinstance(x, bool)]
                    cov[k] = max(nums) if nums else 0
                elif t is int and isinstance(v, (float, str)):
                    try:
                        cov[k] = int(float(v))
                    except ValueError:
                        pass
        if self.level not in ("exploration", "fault_enumeration", "model_checking", "proof", "translation_validation", "other"):
            self.level = "model_checking"
        ev = {
            "property_id": self.prop,
            "tier": self.tier,
            "seed": self.seed,
            "level": self.level,
            "coverage": cov,
            "assumptions": self.assumptions,
            "wall_s": round(time.time() - self.t0, 1),
            "violations": self.violations,
        }
        if os.environ.get("VERIF_REPO", "/repo").rstrip("/") != "/repo" or os.environ.get("VERIF_NO_EVIDENCE"):
            # a sensitivity run against a mutated scratch copy: evidence/ only ever describes /repo itself
            return 1 if self.violations else 0
        os.makedirs(os.path.join(VERIF, "evidence"), exist_ok=True)
        with open(os.path.join(VERIF, "evidence", self.prop + ".json"), "w") as f:
            json.dump(ev, f, indent=1, default=str)
        return 1 if self.violations else 0

    def cleanup(self):
        if not self.keep_tmp:
            shutil.rmtree(self.tmp, ignore_errors=True)


def read_ndjson(path):
    out = []
    with open(path) as f:
        for line in f:
            line = line.strip()
            if line:
                out.append(json.loads(line))
    return out


def write_ndjson(path, recs):
    with open(path, "w") as f:
        for r in recs:
            f.write(json.dumps(r, separators=(",", ":")) + "\n")
